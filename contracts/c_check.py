"""Contracts for codelimit/commands/check.py (C02, C03, C12)."""

C = "codelimit.commands.check:"


def install(reg):
    reg.cls("Languages", {"@by_name": "dict[str,Language]"})
    reg.cls("Language", {"name": "str", "allow_nested_functions": "bool"})
    reg.contract(
        C + "check_file", params={"path": "ext:Path", "check_result": "CheckResult"}, returns="None",
        modifies=["check_result.hard_to_maintain", "check_result.unmaintainable", "check_result.file_list[]"],
        call_sites={"CheckResult.add": {
            "only_longer_than_30": "forall(0, len(arg2), lambda k: arg2[k].value > 30)",
            "longest_first": "forall(0, len(arg2), lambda a, b: arg2[a].value >= arg2[b].value)",
            "all_of_them": "len(arg2) == count_if(measurements, lambda m: cat(m.value) >= 2)",
            "for_this_file": "arg1 is path",
            "into_this_result": "arg0 is check_result",
        }, "_read_file": {"same_decoding_as_scan": "arg0 is path"},
           "lex": {"whole_text_with_comments_as_scan_does": "arg0 is lexer and arg1 == call_result('_read_file') and not arg2"},
           "scan_file": {"of_the_lexed_tokens": "arg0 is call_result('lex')"}},
        ensures={"what_is_listed_comes_from_the_scan_pipeline":
                 "implies(called('CheckResult.add'), called('scan_file') and called('lex') and called('_read_file'))"},
        raises={},
        props=("C02", "C12", "C03"),
    )
    reg.contract(
        C + "check_command", params={"paths": "list[ext:Path]", "quiet": "bool"}, returns="None",
        modifies=["*"],
        raises={"Exit": None}, assume_absent={"IndexError": "os.walk never yields empty names, so f[0] is defined"},
        ensures={"always_exits_through_typer": "False"},
        ensures_raise={"Exit": {
            "status_1_iff_unmaintainable": "exc.code == (1 if check_result.unmaintainable > 0 else 0)",
            "reported_unless_quiet_and_clean": "iff(called('CheckResult.report'), (not quiet) or check_result.hard_to_maintain > 0 "
                                               "or check_result.unmaintainable > 0)",
        }},
        props=("C02",),
    )
