"""Contracts for codelimit/commands/check.py (C02, C03, C12)."""

C = "codelimit.commands.check:"


def install(reg):
    reg.cls("Languages", {"@by_name": "dict[str,Language]"})
    reg.cls("Language", {"name": "str", "allow_nested_functions": "bool"})
    reg.contract(
        C + "check_file", params={"path": "ext:Path", "check_result": "CheckResult"}, returns="None",
        modifies=["check_result.hard_to_maintain", "check_result.unmaintainable", "check_result.file_list[]"],
        call_sites={"CheckResult.add": {
            "only_longer_than_30": "forall(0, len(arg2), lambda k: arg2[k].value > 30)",
            "longest_first": "forall(0, len(arg2), lambda a, b: arg2[a].value >= arg2[b].value)",
            "all_of_them": "len(arg2) == count_if(measurements, lambda m: cat(m.value) >= 2)",
            "for_this_file": "arg1 is path",
            "into_this_result": "arg0 is check_result",
        }},
        raises={"UnicodeDecodeError": None},   # C02 does not claim decoding; C03/C12 check it with raises={}
        props=("C02", "C12"),
    )
    reg.contract(
        C + "_handle_file_path", params={"path": "ext:Path", "check_result": "CheckResult", "excludes_spec": "ext:PathSpec"},
        returns="None",
        modifies=["check_result.hard_to_maintain", "check_result.unmaintainable", "check_result.file_list[]"],
        raises={"UnicodeDecodeError": None},
        props=("C12",),
    )
    reg.contract(
        C + "check_command", params={"paths": "list[ext:Path]", "quiet": "bool"}, returns="None",
        modifies=["*"],
        raises={"Exit": None, "UnicodeDecodeError": None, "ValueError": None},
        ensures={"always_exits_through_typer": "False"},
        ensures_raise={"Exit": {
            "status_1_iff_unmaintainable": "exc.code == (1 if check_result.unmaintainable > 0 else 0)",
            "reported_unless_quiet_and_clean": "iff(called('CheckResult.report'), (not quiet) or check_result.hard_to_maintain > 0 "
                                               "or check_result.unmaintainable > 0)",
        }},
        props=("C02",),
    )
