"""Contracts for codelimit/common/CheckResult.py (C02)."""

K = "codelimit.common.CheckResult:CheckResult."


def install(reg):
    reg.contract(
        K + "add", params={"file": "ext:Path", "measurements": "list[Measurement]"}, returns="None",
        # what the statement needs: the counters always describe what is listed, and a file that is not listed yet gets listed.
        # (Listing the very same path a second time is left open: an earlier, code-derived version of this contract demanded an
        # append on every call and raised a false alarm on a consistent de-duplication.)
        ensures={
            "listed_and_counted_together":
                "(len(self.file_list) == old(len(self.file_list)) + 1 and self.file_list[len(self.file_list) - 1][1] is measurements and "
                "self.hard_to_maintain == old(self.hard_to_maintain) + count_if(measurements, lambda m: cat(m.value) == 2) and "
                "self.unmaintainable == old(self.unmaintainable) + count_if(measurements, lambda m: cat(m.value) == 3)) or "
                "(len(self.file_list) == old(len(self.file_list)) and self.hard_to_maintain == old(self.hard_to_maintain) and "
                "self.unmaintainable == old(self.unmaintainable))",
            "a_file_not_listed_yet_is_listed":
                "implies(not old(exists(0, len(self.file_list), lambda k: self.file_list[k][0] == file)), "
                "len(self.file_list) == old(len(self.file_list)) + 1 and self.file_list[len(self.file_list) - 1][0] is file)",
        },
        modifies=["self.hard_to_maintain", "self.unmaintainable", "self.file_list[]"],
        props=("C02",),
    )
    reg.contract(
        K + "report", params={}, returns="None",
        loops={
            0: dict(fingerprint="file, measurements in self.file_list"),
            1: dict(fingerprint="m in measurements", body_asserts={
                "one_line_per_measurement": "iter_trace_len() == 1 and iter_trace_method(0) == 'print'",
                "line_is_the_formatted_measurement": "iter_trace_arg(0, 0) is iter_call_result('format_measurement')",
            }),
        },
        call_sites={"format_measurement": {"of_this_measurement": "arg1 is m"}},
        ensures={
            "summary_printed_last": "out_method(-1) == 'print'",
            "summary_count": "implies(self.hard_to_maintain > 0 or self.unmaintainable > 0, out_arg(-1, 0) == "
                             "strcat(fmt('', len(self.file_list)), ' files checked, ', "
                             "fmt('', self.hard_to_maintain + self.unmaintainable), ' functions need refactoring.'))",
            "sparkles_iff_none": "implies(not (self.hard_to_maintain > 0 or self.unmaintainable > 0), out_arg(-1, 0) == "
                                 "strcat(fmt('', len(self.file_list)), ' files checked, :sparkles: Refactoring not "
                                 "necessary :sparkles:, happy coding!'))",
        },
        props=("C02",),
    )
