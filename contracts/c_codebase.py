"""Contracts for Codebase (C07)."""

CB = "codelimit.common.Codebase:Codebase."


def install(reg):
    reg.contract("codelimit.common.utils:get_parent_folder", params={"path": "str"}, returns="str", pure=True, assumed=True,
                 note="summary: a function of the path (component view checked by the bounded stand-in of C07)")
    reg.contract("codelimit.common.utils:get_basename", params={"path": "str"}, returns="str", pure=True, assumed=True, note="summary")
    reg.contract(CB + "add_folder", params={"path": "str"}, returns="None", assumed=True,
                 modifies=["self.tree{}"],
                 ensures={"folder_registered": "has_key(self.tree, strcat(path, '/')) or path == '.'",
                          "root_kept": "implies(old(has_key(self.tree, './')), has_key(self.tree, './'))"},
                 note="summary of the recursive registration; the tree shape is checked by the bounded stand-in of C07")
    reg.contracts.pop(CB + "add_file", None)
    reg.contract(
        CB + "add_file", params={"entry": "SourceFileEntry"}, returns="None",
        requires={"representation_invariant": "codebase_ok(self)"},
        ensures={
            "representation_invariant_kept": "codebase_ok(self)",
            "file_is_registered_under_its_path": "has_key(self.files, entry.path) and self.files[entry.path] is entry",
            "one_more_file_unless_replaced": "len(self.files) == old(len(self.files)) + (0 if old(has_key(self.files, entry.path)) else 1)",
            "its_language_has_totals": "has_key(self.totals, entry.language)",
            "totals_of_that_language_count_the_file": "called('LanguageTotals.add')",
            "its_parent_folder_lists_the_file": "called('SourceFolder.add_file')",
        },
        call_sites={
            "LanguageTotals.add": {"the_totals_of_the_entry_language": "arg0 is self.totals[entry.language] and arg1 is entry"},
            "LanguageTotals.__init__": {"named_after_the_language": "arg1 == entry.language"},
            "SourceFolder.add_file": {"listed_under_its_parent_folder":
                                      "arg0 is self.tree[strcat(get_parent_folder(entry.path), '/')] and arg1 is entry"},
            "Codebase.add_folder": {"the_parent_folder": "arg1 == get_parent_folder(entry.path)"},
        },
        modifies=["self.files{}", "self.totals{}", "self.tree{}", "*"], props=("C07",),
    )
    reg.contract("codelimit.common.LanguageTotals:LanguageTotals.__init__", params={"language": "str"}, returns="None",
                 modifies=["self.language", "self.files", "self.loc", "self.functions", "self.hard_to_maintain", "self.unmaintainable"],
                 ensures={"zeroed": "self.language == language and self.files == 0 and self.loc == 0 and self.functions == 0 and "
                                    "self.hard_to_maintain == 0 and self.unmaintainable == 0"}, props=("C07",))


def install_measurements(reg):
    """Whole-codebase views (C05, C07): reading them creates a new list and changes nothing."""
    reg.contract(CB + "all_measurements", params={}, returns="list[Measurement]", fresh_result=True,
                 locals={"result": "list[Measurement]"},
                 loops={0: dict(fingerprint="entry in self.files.values()", invariant={
                     "still_a_new_list": "fresh(result)"})},
                 ensures={"a_new_list": "fresh(result)"},
                 modifies=[], props=("C05", "C07"),
                 note="the statement-level content (concatenation over files) is checked by the bounded stand-ins of C05/C07; what is "
                      "discharged is that the view is a new list and that reading it writes nothing (no cache, no aliasing)")


_install_b = install


def install(reg):
    _install_b(reg)
    install_measurements(reg)
