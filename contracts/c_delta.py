"""Contracts for ScanTotals, LanguageTotalsDelta, ScanTotalsDelta, ScanResultTable, markdown totals (C18, C07)."""

ST = "codelimit.common.ScanTotals:ScanTotals."
LD = "codelimit.common.LanguageTotalsDelta:LanguageTotalsDelta."
SD = "codelimit.common.ScanTotalsDelta:ScanTotalsDelta."
RT = "codelimit.common.ScanResultTable:ScanResultTable."
FM = "codelimit.common.report.format_markdown:"
FT = "codelimit.common.report.format_text:"

FIELDS = ["files", "functions", "loc", "hard_to_maintain", "unmaintainable"]


def delta(cur, prev):
    return f"(fmt('n', {cur}) if {cur} - {prev} == 0 else strcat(fmt('n', {cur}), ' (', fmt('+n', {cur} - {prev}), ')'))"


def install(reg):
    V = "dict_values(self._languages_totals)"
    for f in FIELDS:
        reg.contract(ST + "total_" + f, params={}, returns="int", pure=True,
                     ensures={"sum_over_languages": f"result == sum_if({V}, lambda l: l.{f}, None)"}, props=("C18", "C07"))
    reg.contract(ST + "language_total", params={"language": "str"}, returns="Optional[LanguageTotals]", pure=True,
                 ensures={"lookup": "result is dict_get(self._languages_totals, language)"}, props=("C18",))
    reg.contract(ST + "languages_totals", params={}, returns="list[LanguageTotals]", fresh_result=True,
                 ensures={"all_languages": f"len(result) == len({V})",
                          "by_loc_descending": "forall(0, len(result), lambda a, b: result[a].loc >= result[b].loc)"},
                 props=("C18",))
    C, P = "self._language_totals_current", "self._language_totals_previous"
    for f in ("files", "functions", "loc"):
        reg.contract(LD + f, params={}, returns="str", pure=True,
                     ensures={"annotated_iff_differs": "result == " + delta(f"{C}.{f}", f"({P}.{f} if {P} else 0)")},
                     props=("C18",))
    for f in ("hard_to_maintain", "unmaintainable"):
        reg.contract(LD + f, params={}, returns="str", pure=True,
                     ensures={"annotated_iff_differs": f"result == ({delta(f'{C}.{f}', f'{P}.{f}')} if {P} else fmt('n', {C}.{f}))"},
                     props=("C18",))
    C2, P2 = "self._scan_totals_current", "self._scan_totals_previous"
    for f in FIELDS:
        reg.contract(SD + "total_" + f, params={}, returns="str", pure=True,
                     ensures={"annotated_iff_differs": "result == " + delta(f"{C2}.total_{f}()", f"{P2}.total_{f}()")},
                     props=("C18",))
    # ---- text table
    row_diff = {f"cell_{f}": f"iter_trace_arg(0, {i + 1}) == LanguageTotalsDelta(language_totals, self._stp.language_total(language_totals.language)).{f}()"
                for i, f in enumerate(FIELDS)}
    reg.contract(
        RT + "_populate", params={}, returns="None",
        loops={0: dict(fingerprint="language_totals in self._stc.languages_totals()", body_asserts={
            "one_row": "iter_trace_len() == 1 and iter_trace_method(0) == 'add_row'",
            "language_cell": "iter_trace_arg(0, 0) == language_totals.language",
            **{f"cell_{f}": f"implies(not self._stp, iter_trace_arg(0, {i + 1}) == fmt('n', language_totals.{f}))"
               for i, f in enumerate(FIELDS)},
        })},
        call_sites={"LanguageTotalsDelta.__init__": {
            "current_is_this_language": "arg1 is language_totals",
            "previous_is_from_previous_report": "arg2 is self._stp.language_total(language_totals.language)"}},
        props=("C18",),
    )
    reg.contract(
        RT + "__init__", params={"scan_totals_current": "ScanTotals", "scan_totals_previous": "Optional[ScanTotals]"},
        returns="None", modifies=["self._stc", "self._stp"],
        call_sites={"ScanTotalsDelta.__init__": {"current_then_previous": "arg1 is scan_totals_current and arg2 is scan_totals_previous"}},
        ensures={
            "stores_current": "self._stc is scan_totals_current",
            "stores_previous": "self._stp is scan_totals_previous",
            "populated": "called('ScanResultTable._populate')",
            **{f"footer_{f}": f"implies(not scan_totals_previous, out_arg({i + 2}, 1) == fmt('n', scan_totals_current.total_{f}()))"
               for i, f in enumerate(FIELDS)},
            **{f"footer_delta_{f}": f"implies(scan_totals_previous, out_arg({i + 2}, 1) == ScanTotalsDelta(scan_totals_current, scan_totals_previous).total_{f}())"
               for i, f in enumerate(FIELDS)},
        },
        props=("C18",),
    )
    # ---- markdown table
    reg.contract(
        FM + "_print_totals",
        params={"console": "ext:Console", "scan_totals_current": "ScanTotals", "scan_totals_previous": "Optional[ScanTotals]"},
        returns="None",
        loops={0: dict(fingerprint="language_totals in scan_totals_current.languages_totals()", body_asserts={
            "one_row": "iter_trace_len() == 1 and iter_trace_method(0) == 'print'",
            "plain_row": "implies(not scan_totals_previous, iter_trace_arg(0, 0) == f'| {language_totals.language} | {language_totals.files} | "
                         "{language_totals.functions} | {language_totals.loc} | {language_totals.hard_to_maintain} | {language_totals.unmaintainable} |')",
            "diff_row_language": "implies(scan_totals_previous, iter_trace_arg(0, 0) == language_totals.language)",
            **{f"diff_cell_{f}": f"implies(scan_totals_previous, iter_trace_arg(0, {i + 1}) == "
                                 + ("f'| {" if i == 0 else "f'{")
                                 + f"LanguageTotalsDelta(language_totals, scan_totals_previous.language_total(language_totals.language)).{f}()"
                                 + ("} | ')" if i < 4 else "} |')")
               for i, f in enumerate(FIELDS)},
        })},
        call_sites={
            "LanguageTotalsDelta.__init__": {
                "current_is_this_language": "arg1 is language_totals",
                "previous_is_from_previous_report": "arg2 is scan_totals_previous.language_total(language_totals.language)"},
            "ScanTotalsDelta.__init__": {"current_then_previous": "arg1 is scan_totals_current and arg2 is scan_totals_previous"},
        },
        props=("C18",),
    )
    for key, cs in ((FT + "print_totals", "ScanResultTable.__init__"), (FM + "print_totals", "_print_totals")):
        reg.contract(
            key, params={"console": "ext:Console", "report": "Report", "diff_report": "Optional[Report]"}, returns="None",
            call_sites={"ScanTotals.__init__": {"from_a_report": "arg1 is report.codebase.totals or (diff_report and arg1 is diff_report.codebase.totals)"}},
            ensures={"current_totals_first": "call_count('ScanTotals.__init__') == (2 if diff_report else 1)"},
            props=("C18",),
        )
    reg.contract(ST + "__init__", params={"language_totals": "Optional[dict[str,LanguageTotals]]"}, returns="None",
                 modifies=["self._languages_totals"],
                 ensures={"wraps": "implies(language_totals, self._languages_totals is language_totals)"}, props=("C18",))
    reg.contract(LD + "__init__", params={"language_totals_current": "LanguageTotals", "language_totals_previous": "Optional[LanguageTotals]"},
                 returns="None", modifies=["self._language_totals_current", "self._language_totals_previous"],
                 ensures={"cur": "self._language_totals_current is language_totals_current",
                          "prev": "self._language_totals_previous is language_totals_previous"}, props=("C18",))
    reg.contract(SD + "__init__", params={"scan_totals_current": "ScanTotals", "scan_totals_previous": "ScanTotals"},
                 returns="None", modifies=["self._scan_totals_current", "self._scan_totals_previous"],
                 ensures={"cur": "self._scan_totals_current is scan_totals_current",
                          "prev": "self._scan_totals_previous is scan_totals_previous"}, props=("C18",))
