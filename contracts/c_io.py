"""Contracts for the I/O shell: cache reading, per-file scan, walking, check (C03, C09, C10, C11, C12)."""

S = "codelimit.common.Scanner:"
SCAN = "codelimit.commands.scan:"
CHK = "codelimit.commands.check:"
RR = "codelimit.common.report.ReportReader:ReportReader."


def install(reg):
    reg.cls("ext:Lexer", {})
    reg.contract(
        RR + "from_json", params={"json": "str"}, returns="Report", fresh_result=True, assumed=True,
        raises={"ValueError": None, "KeyError": None, "TypeError": None, "AttributeError": None},
        note="summary of the reader: json.loads raises JSONDecodeError (a ValueError) on non-JSON; subscripting the parsed value raises "
             "KeyError/TypeError/AttributeError on a wrong shape; wrongly typed leaves raise ValueError",
    )
    reg.contract(
        SCAN + "_read_cached_report", params={"report_path": "ext:Path"}, returns="Optional[Report]",
        ensures={
            "only_a_cache_of_this_version_is_used": "implies(not is_none(result), result.version == Report.VERSION)",
            "the_cache_is_what_was_read": "implies(not is_none(result), result is call_result('ReportReader.from_json'))",
        },
        raises={}, props=("C10", "C09"),
    )
    reg.contract(
        S + "_read_file", params={"path": "ext:Path"}, returns="str", raises={}, pure=True,
        ensures={}, props=("C03", "C12"), note="every byte content decodes: UTF-8, else Latin-1 which is total",
    )
    reg.contracts[S + "_read_file"].pure = True
    reg.contract("codelimit.common.utils:calculate_checksum", params={"path": "str"}, returns="str", pure=True, assumed=True,
                 note="md5 of the file's bytes (hashlib; collisions excluded by assumption)")
    reg.contract(
        S + "_scan_file",
        params={"codebase": "Codebase", "lexer": "ext:Lexer", "root": "ext:Path", "path": "str", "cached_report": "Optional[Report]"},
        returns="SourceFileEntry",
        requires={"supported_language": "has_key(Languages.by_name, lexer.__class__.name)",
                  "codebase_well_formed": "codebase_ok(codebase)",
                  "the_cache_is_another_codebase": "is_none(cached_report) or (cached_report.codebase is not codebase and "
                                                   "cached_report.codebase.files is not codebase.files)"},
        ensures={
            "analysed_unless_an_unchanged_cache_entry_exists":
                "iff(called('_analyze_file'), not (not is_none(cached_report) and old(has_key(cached_report.codebase.files, rel_path)) and "
                "old(cached_report.codebase.files[rel_path]._checksum) == call_result('calculate_checksum')))",
            "codebase_stays_well_formed": "codebase_ok(codebase)",
            "entry_is_keyed_by_the_relative_path": "result.path == rel_path",
            "entry_carries_the_checksum_of_the_current_bytes": "result._checksum == call_result('calculate_checksum')",
            "entry_is_added_to_the_codebase": "called('Codebase.add_file')",
            "reused_entry_copies_the_cached_analysis":
                "implies(not called('_analyze_file'), result._measurements is old(cached_report.codebase.files[rel_path]._measurements) and "
                "result.loc == old(cached_report.codebase.files[rel_path].loc) and result.language == old(cached_report.codebase.files[rel_path].language))",
        },
        call_sites={"Codebase.add_file": {"the_entry": "arg0 is codebase and arg1 is entry"},
                    "_analyze_file": {"this_file": "arg0 == path and arg1 == rel_path and arg2 == checksum and arg3 is lexer"},
                    "calculate_checksum": {"of_this_file": "arg0 == path"}},
        modifies=["codebase.files{}", "codebase.totals{}", "codebase.tree{}"], props=("C09",),
    )
    reg.contract(
        CHK + "_handle_file_path", params={"path": "ext:Path", "check_result": "CheckResult", "excludes_spec": "ext:PathSpec"},
        returns="None", modifies=["check_result.hard_to_maintain", "check_result.unmaintainable", "check_result.file_list[]"],
        raises={},
        ensures={"excluded_files_are_skipped":
                 "implies(called('is_excluded') and call_result('is_excluded'), not called('check_file'))"},
        props=("C12", "C03"),
    )


def install_walk(reg):
    reg.contract(
        "codelimit.common.Codebase:Codebase.__init__", params={"root": "str"}, returns="None", assumed=True,
        modifies=["self.root", "self.tree", "self.files", "self.totals"],
        ensures={"root": "self.root == root", "fresh_files": "fresh(self.files) and len(self.files) == 0",
                 "fresh_totals": "fresh(self.totals) and len(self.totals) == 0", "fresh_tree": "fresh(self.tree)",
                 "well_formed": "codebase_ok(self)"},
        note="summary of the constructor: empty dictionaries of its own",
    )
    reg.contract(
        S + "scan_path",
        params={"path": "ext:Path", "cached_report": "Optional[Report]", "add_file_entry_callback": "any"}, returns="Codebase",
        fresh_result=True,
        loops={
            0: dict(fingerprint="root, dirs, files in os.walk(path.absolute())", invariant={"codebase_well_formed": "codebase_ok(result)"},
                    body_asserts={
                "hidden_directories_are_pruned_in_place": "iter_trace_len() >= 1 and iter_trace_method(0) == 'slice-assign' and "
                                                          "forall(0, len(dirs), lambda k: not (dirs[k][0] == '.'))",
            }),
            1: dict(fingerprint="file in files", invariant={"codebase_well_formed": "codebase_ok(result)"}, body_asserts={
                "hidden_files_are_never_considered": "not (file[0] == '.')",
                "excluded_files_are_never_analysed": "implies(iter_called('_scan_file'), not iter_call_result('is_excluded'))",
                "exclusion_is_tested_for_every_candidate": "iter_called('is_excluded')",
            }),
        },
        call_sites={
            "is_excluded": {"root_relative_path_against_the_generated_spec":
                            "arg1 is excludes_spec and arg0 is Path(os.path.join(root, file)).relative_to(path.absolute())"},
            "_scan_file": {"into_the_result_with_the_cache": "arg0 is result and arg1 is lexer and arg2 is path and "
                           "arg3 == os.path.join(root, file) and arg4 is cached_report"},
            "generate_exclude_spec": {"for_this_root": "arg0 is path"},
        },
        requires={"cache_belongs_to_another_scan": "is_none(cached_report) or True"},
        raises={}, assume_absent={"IndexError": "os.walk never yields empty names, so f[0] is defined"}, modifies=[], props=("C11", "C03"),
    )


_install_b = install


def install(reg):
    _install_b(reg)
    install_walk(reg)
