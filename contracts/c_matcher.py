"""Contracts for the deterministic matcher (C13, C14): what match / starts_with do with a Pattern, relative to a summary of
Pattern.consume. The construction of the automaton (expression_to_nfa, nfa_to_dfa) is outside the perimeter (bounded stand-in)."""

M = "codelimit.common.gsm.matcher:"
P = "codelimit.common.gsm.Pattern:Pattern."


def install(reg):
    reg.contract("codelimit.common.gsm.Expression:expression_to_nfa", params={"expression": "any"}, returns="NFA", fresh_result=True,
                 assumed=True, note="summary: Thompson construction (bounded stand-in of C13)")
    reg.contract("codelimit.common.gsm.Expression:nfa_to_dfa", params={"nfa": "NFA"}, returns="DFA", fresh_result=True,
                 assumed=True, note="summary: subset construction (bounded stand-in of C13)")
    reg.contract(P + "__init__", params={"start": "int", "automata": "DFA"}, returns="None",
                 modifies=["self.start", "self.end", "self.automata", "self.state", "self.tokens", "self.predicate_map"],
                 ensures={"fresh_pattern": "self.start == start and self.end == start and self.automata is automata and "
                                           "self.state is automata.start and fresh(self.tokens) and len(self.tokens) == 0"})
    reg.contract(P + "consume", params={"item": "Token"}, returns="Optional[State]", assumed=True,
                 modifies=["self.state", "self.tokens[]", "self.predicate_map{}", "*"],
                 raises={"ValueError": None},
                 ensures={
                     "an_accepted_item_is_recorded": "implies(result is not None, len(self.tokens) == old(len(self.tokens)) + 1 and "
                                                     "self.tokens[old(len(self.tokens))] is item)",
                     "a_rejected_item_is_not": "implies(result is None, len(self.tokens) == old(len(self.tokens)))",
                     "earlier_items_kept": "forall(0, old(len(self.tokens)), lambda k: self.tokens[k] is old(self.tokens[k]))",
                 },
                 note="summary of Pattern.consume: the transition itself is verified per shipped automaton under C15 and explored "
                      "against a reference under C13/C14; predicates may keep their own state (the '*' in modifies)")
    reg.contract(P + "is_accepting", params={}, returns="bool", pure=True, assumed=True, note="summary: membership of the state in the accepting list")
    reg.contract(
        M + "match", params={"expression": "any", "sequence": "list[Token]"}, returns="Optional[Pattern]",
        raises={"ValueError": None},
        loops={0: dict(fingerprint="item in sequence", invariant={
            "every_item_so_far_was_consumed": "len(pattern.tokens) == i",
            "in_order": "forall(0, i, lambda k: pattern.tokens[k] is sequence[k])",
            "from_the_start": "pattern.start == 0",
        }, body_asserts={"consumes_this_item": "iter_call_count('Pattern.consume') == 1"})},
        call_sites={"Pattern.consume": {"the_next_item": "arg0 is pattern and arg1 is item"},
                    "Pattern.__init__": {"starts_at_zero_on_the_built_automaton": "arg1 == 0 and arg2 is call_result('nfa_to_dfa')"},
                    "nfa_to_dfa": {"of_the_expression": "arg0 is call_result('expression_to_nfa')"}},
        ensures={
            "a_match_spans_the_whole_sequence": "implies(result is not None, result.start == 0 and result.end == len(sequence) and "
                                                "len(result.tokens) == len(sequence))",
            "and_records_exactly_its_items": "implies(result is not None, forall(0, len(sequence), lambda k: result.tokens[k] is sequence[k]))",
            "only_in_an_accepting_state": "implies(result is not None, call_result('Pattern.is_accepting'))",
            "a_fully_consumed_accepting_run_is_reported": "implies(called('Pattern.is_accepting'), "
                                                          "(result is not None) == call_result('Pattern.is_accepting'))",
        },
        modifies=["*"], props=("C13",),
    )
    reg.contract(
        M + "starts_with", params={"expression": "any", "sequence": "list[Token]"}, returns="Optional[Pattern]",
        raises={"ValueError": None},
        loops={0: dict(fingerprint="item in sequence", invariant={
            "every_item_so_far_was_consumed": "len(pattern.tokens) == i",
            "in_order": "forall(0, i, lambda k: pattern.tokens[k] is sequence[k])",
            "from_the_start": "pattern.start == 0",
        }, body_asserts={
            "consumes_this_item": "iter_call_count('Pattern.consume') == 1",
            "no_shorter_prefix_was_accepting": "not iter_call_result('Pattern.is_accepting')",
        })},
        call_sites={"Pattern.consume": {"the_next_item": "arg0 is pattern and arg1 is item"},
                    "Pattern.__init__": {"starts_at_zero_on_the_built_automaton": "arg1 == 0 and arg2 is call_result('nfa_to_dfa')"}},
        ensures={
            "a_prefix_match_is_non_empty_and_within_bounds": "implies(result is not None, result.start == 0 and 1 <= result.end <= len(sequence) "
                                                             "and len(result.tokens) == result.end)",
            "and_records_exactly_its_items": "implies(result is not None, forall(0, result.end, lambda k: result.tokens[k] is sequence[k]))",
        },
        modifies=["*"], props=("C13",),
    )
