"""Contracts for Report, format_text, format_markdown, SummaryTable (C02, C18, C19)."""

R = "codelimit.common.report.Report:Report."
FT = "codelimit.common.report.format_text:"
FM = "codelimit.common.report.format_markdown:"

_MD_ROW = ("strcat('| ', unit.file, ' | ', fmt('', unit.measurement.start.line), ' | ', "
           "fmt('', unit.measurement.start.column), ' | ', fmt('', unit.measurement.value), ' | ', "
           "md_symbol_of(cat(unit.measurement.value)), ' ', unit.measurement.unit_name, ' |')")


def install(reg):
    reg.contract(
        R + "all_report_units_sorted_by_length_asc", params={"threshold": "int"}, returns="list[ReportUnit]",
        ensures={
            "only_longer_than_threshold": "forall(0, len(result), lambda k: result[k].measurement.value > threshold)",
            "longest_first": "forall(0, len(result), lambda a, b: result[a].measurement.value >= result[b].measurement.value)",
        },
        loops={
            0: dict(fingerprint="file, entry in self.codebase.files.items()",
                    invariant={"only": "forall(0, len(result), lambda k: result[k].measurement.value > threshold)"}),
            1: dict(fingerprint="m in entry.measurements()",
                    invariant={"only": "forall(0, len(result), lambda k: result[k].measurement.value > threshold)"}),
        },
        locals={"result": "list[ReportUnit]"},
        fresh_result=True, props=("C02", "C18"),
    )
    trunc = {
        "threshold_is_30": None,
    }
    for key, loopfp in ((FT + "print_findings", "function in functions"),):
        reg.contract(
            key, params={"console": "ext:Console", "report": "Report", "full": "bool"}, returns="None",
            call_sites={"Report.all_report_units_sorted_by_length_asc": {"threshold_is_30": "arg1 == 30"},
                        "format_measurement": {"of_this_row": "arg0 == function.file and arg1 is function.measurement"}},
            loops={0: dict(fingerprint=loopfp, body_asserts={
                "one_row_per_unit": "iter_trace_len() == 1 and iter_trace_method(0) == 'print'",
                "row_is_the_formatted_unit": "iter_trace_arg(0, 0) is iter_call_result('format_measurement')"})},
            ensures={
                "rows_cut_to_10_iff_not_full_and_more": "len(functions) == (10 if (not full and total_findings > 10) else total_findings)",
                "rows_are_the_first_ones": "forall(0, len(functions), lambda k: functions[k] is call_result('Report.all_report_units_sorted_by_length_asc')[k])",
                "total_is_all_findings": "total_findings == len(call_result('Report.all_report_units_sorted_by_length_asc'))",
                "remainder_line_iff_cut": "iff(out_method(-1) == 'print', not full and total_findings > 10)",
                "remainder_states_omitted": "implies(not full and total_findings > 10, out_arg(-1, 0) == "
                                            "strcat(fmt('', total_findings - 10), ' more rows, use --full option to get all rows\\n'))",
            },
            props=("C02", "C18"),
        )
    reg.contract(
        FM + "print_findings", params={"report": "Report", "console": "ext:Console", "full": "bool"}, returns="None",
        call_sites={
            "Report.all_report_units_sorted_by_length_asc": {"threshold_is_30": "arg1 == 30"},
            "_print_findings_with_repository": {"rows": "arg0 is functions"},
            "_print_findings_without_repository": {"rows": "arg0 is functions"},
        },
        ensures={
            "rows_cut_to_10_iff_not_full_and_more": "len(functions) == (10 if (not full and total_findings > 10) else total_findings)",
            "rows_are_the_first_ones": "forall(0, len(functions), lambda k: functions[k] is call_result('Report.all_report_units_sorted_by_length_asc')[k])",
            "total_is_all_findings": "total_findings == len(call_result('Report.all_report_units_sorted_by_length_asc'))",
            "one_table": "call_count('_print_findings_with_repository') + call_count('_print_findings_without_repository') == 1",
            "remainder_states_omitted": "implies(not full and total_findings > 10, out_arg(-1, 0) == "
                                        "strcat(fmt('', total_findings - 10), ' more rows'))",
            "no_remainder_otherwise": "implies(not (not full and total_findings > 10), out_len() == 0)",
        },
        props=("C02", "C18"),
    )
    reg.contract(
        FM + "_print_findings_without_repository", params={"report_units": "list[ReportUnit]", "console": "ext:Console"},
        returns="None",
        loops={0: dict(fingerprint="unit in report_units", body_asserts={
            "one_row_per_unit": "iter_trace_len() == 1 and iter_trace_method(0) == 'print'",
            "row_shows_stored_numbers_and_symbol": "iter_trace_arg(0, 0) == " + _MD_ROW})},
        props=("C02", "C18"),
    )
    reg.contract(
        FM + "_print_findings_with_repository",
        params={"report_units": "list[ReportUnit]", "repository": "GithubRepository", "console": "ext:Console"}, returns="None",
        loops={0: dict(fingerprint="unit in report_units", body_asserts={
            "one_row_per_unit": "iter_trace_len() == 1 and iter_trace_method(0) == 'print'",
            "row_shows_stored_numbers_and_symbol":
                "iter_trace_arg(0, 0) == f'| {md_symbol_of(cat(unit.measurement.value))} ' + '\\\\[' + unit.measurement.unit_name + ']' + "
                "f'(https://github.com/{repository.owner}/{repository.name}/blob/{repository.branch}/{unit.file}"
                "#L{unit.measurement.start.line}-L{unit.measurement.end.line}) | {unit.measurement.value} | {unit.file} |'"})},
        props=("C02", "C18"),
    )
