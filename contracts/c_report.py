"""Contracts for Report, format_text, format_markdown, SummaryTable (C02, C18, C19)."""

R = "codelimit.common.report.Report:Report."
FT = "codelimit.common.report.format_text:"
FM = "codelimit.common.report.format_markdown:"

_MD_ROW = ("strcat('| ', unit.file, ' | ', fmt('', unit.measurement.start.line), ' | ', "
           "fmt('', unit.measurement.start.column), ' | ', fmt('', unit.measurement.value), ' | ', "
           "md_symbol_of(cat(unit.measurement.value)), ' ', unit.measurement.unit_name, ' |')")


def install(reg):
    reg.contract(
        R + "all_report_units_sorted_by_length_asc", params={"threshold": "int"}, returns="list[ReportUnit]",
        ensures={
            "only_longer_than_threshold": "forall(0, len(result), lambda k: result[k].measurement.value > threshold)",
            "longest_first": "forall(0, len(result), lambda a, b: result[a].measurement.value >= result[b].measurement.value)",
        },
        loops={
            0: dict(fingerprint="file, entry in self.codebase.files.items()",
                    invariant={"only": "forall(0, len(result), lambda k: result[k].measurement.value > threshold)"}),
            1: dict(fingerprint="m in entry.measurements()",
                    invariant={"only": "forall(0, len(result), lambda k: result[k].measurement.value > threshold)"}),
        },
        locals={"result": "list[ReportUnit]"},
        fresh_result=True, props=("C02", "C18"),
    )
    trunc = {
        "threshold_is_30": None,
    }
    for key, loopfp in ((FT + "print_findings", "function in functions"),):
        reg.contract(
            key, params={"console": "ext:Console", "report": "Report", "full": "bool"}, returns="None",
            call_sites={"Report.all_report_units_sorted_by_length_asc": {"threshold_is_30": "arg1 == 30"},
                        "format_measurement": {"of_this_row": "arg0 == function.file and arg1 is function.measurement"}},
            loops={0: dict(fingerprint=loopfp, body_asserts={
                "one_row_per_unit": "iter_trace_len() == 1 and iter_trace_method(0) == 'print'",
                "row_is_the_formatted_unit": "iter_trace_arg(0, 0) is iter_call_result('format_measurement')"})},
            ensures={
                "rows_cut_to_10_iff_not_full_and_more": "len(functions) == (10 if (not full and total_findings > 10) else total_findings)",
                "rows_are_the_first_ones": "forall(0, len(functions), lambda k: functions[k] is call_result('Report.all_report_units_sorted_by_length_asc')[k])",
                "total_is_all_findings": "total_findings == len(call_result('Report.all_report_units_sorted_by_length_asc'))",
                "remainder_line_iff_cut": "iff(out_method(-1) == 'print', not full and total_findings > 10)",
                "remainder_states_omitted": "implies(not full and total_findings > 10, out_arg(-1, 0) == "
                                            "strcat(fmt('', total_findings - 10), ' more rows, use --full option to get all rows\\n'))",
            },
            props=("C02", "C18"),
        )
    reg.contract(
        FM + "print_findings", params={"report": "Report", "console": "ext:Console", "full": "bool"}, returns="None",
        call_sites={
            "Report.all_report_units_sorted_by_length_asc": {"threshold_is_30": "arg1 == 30"},
            "_print_findings_with_repository": {"rows": "arg0 is functions"},
            "_print_findings_without_repository": {"rows": "arg0 is functions"},
        },
        ensures={
            "rows_cut_to_10_iff_not_full_and_more": "len(functions) == (10 if (not full and total_findings > 10) else total_findings)",
            "rows_are_the_first_ones": "forall(0, len(functions), lambda k: functions[k] is call_result('Report.all_report_units_sorted_by_length_asc')[k])",
            "total_is_all_findings": "total_findings == len(call_result('Report.all_report_units_sorted_by_length_asc'))",
            "one_table": "call_count('_print_findings_with_repository') + call_count('_print_findings_without_repository') == 1",
            "remainder_states_omitted": "implies(not full and total_findings > 10, out_arg(-1, 0) == "
                                        "strcat(fmt('', total_findings - 10), ' more rows'))",
            "no_remainder_otherwise": "implies(not (not full and total_findings > 10), out_len() == 0)",
        },
        props=("C02", "C18"),
    )
    reg.contract(
        FM + "_print_findings_without_repository", params={"report_units": "list[ReportUnit]", "console": "ext:Console"},
        returns="None",
        loops={0: dict(fingerprint="unit in report_units", body_asserts={
            "one_row_per_unit": "iter_trace_len() == 1 and iter_trace_method(0) == 'print'",
            "row_shows_stored_numbers_and_symbol": "iter_trace_arg(0, 0) == " + _MD_ROW})},
        props=("C02", "C18"),
    )
    reg.contract(
        FM + "_print_findings_with_repository",
        params={"report_units": "list[ReportUnit]", "repository": "GithubRepository", "console": "ext:Console"}, returns="None",
        loops={0: dict(fingerprint="unit in report_units", body_asserts={
            "one_row_per_unit": "iter_trace_len() == 1 and iter_trace_method(0) == 'print'",
            "row_shows_stored_numbers_and_symbol":
                "iter_trace_arg(0, 0) == f'| {md_symbol_of(cat(unit.measurement.value))} ' + '\\\\[' + unit.measurement.unit_name + ']' + "
                "f'(https://github.com/{repository.owner}/{repository.name}/blob/{repository.branch}/{unit.file}"
                "#L{unit.measurement.start.line}-L{unit.measurement.end.line}) | {unit.measurement.value} | {unit.file} |'"})},
        props=("C02", "C18"),
    )


_P = 'call_result("Report.quality_profile")'
_T = f"({_P}[0] + {_P}[1] + {_P}[2] + {_P}[3])"
_Q = 'call_result("Report.quality_profile_percentage")'


def install_c19(reg):
    reg.contract(
        R + "quality_profile", params={}, returns="list[int]", pure=True, assumed=True,
        ensures={"four": "len(result) == 4",
                 "non_negative": "result[0] >= 0 and result[1] >= 0 and result[2] >= 0 and result[3] >= 0",
                 "below_2_40": "result[0] + result[1] + result[2] + result[3] < 2 ** 40"},
        note="summary: a quality profile is four non-negative integers (the statement's domain); totals stay below 2^40 lines",
    )
    reg.contract(
        R + "quality_profile_percentage", params={}, returns="tuple[int,int,int,int]", pure=True,
        ensures={
            "empty_codebase": f"implies({_T} == 0, result[0] + result[1] == 100 and result[2] == 0 and result[3] == 0)",
            "range_easy_verbose": "0 <= result[0] + result[1] <= 100",
            "range_hard": "0 <= result[2] <= 100",
            "range_unmaintainable": "0 <= result[3] <= 100",
            "sum_100": "result[0] + result[1] + result[2] + result[3] == 100",
            "hard_within_2_points": f"implies({_T} > 0, -2 < 100 * ({_P}[2] / {_T}) - result[2] < 2)",
            "unm_within_2_points": f"implies({_T} > 0, -2 < 100 * ({_P}[3] / {_T}) - result[3] < 2)",
            "ev_within_2_points": f"implies({_T} > 0, -2 < 100 * (({_P}[0] + {_P}[1]) / {_T}) - (result[0] + result[1]) < 2)",
            # "more than one thousandth of a percent": share > 1/100000, in integers
            "hard_never_shown_as_0": f"implies({_T} > 0 and 100000 * {_P}[2] > {_T}, result[2] >= 1)",
            "unm_never_shown_as_0": f"implies({_T} > 0 and 100000 * {_P}[3] > {_T}, result[3] >= 1)",
        },
        hints={
            # stepping stones for ev_within_2_points: shares add up to one; hard+unm is within two points
            "shares_add_up": f"implies({_T} > 0, ({_P}[0] + {_P}[1]) / {_T} + ({_P}[2] + {_P}[3]) / {_T} == 1)",
            "split_hard_unm": f"implies({_T} > 0, ({_P}[2] + {_P}[3]) / {_T} == {_P}[2] / {_T} + {_P}[3] / {_T})",
            "hard_plus_unm_within_2_points": f"implies({_T} > 0, -2 < 100 * (({_P}[2] + {_P}[3]) / {_T}) - (result[2] + result[3]) < 2)",
        },
        rt_trace=True,      # the stand-in stubs quality_profile and records its result, so the clauses over it are evaluated at run time
        props=("C19",),
    )
    verdict = {
        "stop_iff_unmaintainable": "implies({Q}[3] > 0, out_arg(-1, 0) == f':stop_sign: {{{Q}[3]}}% of {what} are unmaintainable, refactoring necessary.')",
        "warning_iff_hard_over_20": "implies({Q}[3] <= 0 and {Q}[2] > 20, out_arg(-1, 0) == f':warning: {{{Q}[2]}}% of the functions are hard to maintain, refactoring necessary.')",
        "ok_otherwise": "implies({Q}[3] <= 0 and {Q}[2] <= 20, out_arg(-1, 0) == f':white_check_mark: {{{Q}[0] + {Q}[1]}}% of {what} are maintainable, no refactoring necessary.')",
    }
    reg.contract(
        FT + "print_summary", params={"console": "ext:Console", "report": "Report"}, returns="None",
        ensures={k: v.format(Q=_Q, what="lines of code") for k, v in verdict.items()},
        props=("C19",),
    )
    md = {k: v.format(Q=_Q, what="the functions").replace("out_arg(-1, 0)", "out_arg(-2, 0)") for k, v in verdict.items()}
    md["row_shows_the_three_percentages"] = (f"out_arg(3, 0) == f'| {{{_Q}[0] + {_Q}[1]}}% | {{{_Q}[2]}}% | {{{_Q}[3]}}% |'")
    reg.contract(FM + "print_summary", params={"console": "ext:Console", "report": "Report"}, returns="None", ensures=md,
                 props=("C19",))
    reg.contract(
        "codelimit.common.SummaryTable:SummaryTable.__init__", params={"report": "Report"}, returns="None",
        ensures={
            "cells": f"out_method(-1) == 'add_row' and str(out_arg(-1, 0)) == f'{{{_Q}[0] + {_Q}[1]:n}}%' and "
                     f"str(out_arg(-1, 1)) == f'{{{_Q}[2]:n}}%' and str(out_arg(-1, 2)) == f'{{{_Q}[3]:n}}%'",
        },
        rt_trace=True, props=("C19",),
    )


_install_base = install


def install(reg):
    _install_base(reg)
    install_c19(reg)
