"""Contracts for codelimit/common/Scanner.py and lexer_utils (shared by many properties)."""

S = "codelimit.common.Scanner:"


def install(reg):
    reg.contract("codelimit.common.lexer_utils:lex", params={"lexer": "ext:Lexer", "code": "str", "filter_comments": "bool"},
                 returns="list[Token]", fresh_result=True, pure=True, note="summary used by callers; verified in C16")
    reg.contract(S + "scan_file", params={"tokens": "list[Token]", "language": "Language"}, returns="list[Measurement]",
                 fresh_result=True, note="summary used by callers; the body is verified in C05/C03")
    reg.contract(S + "generate_exclude_spec", params={"root": "ext:Path"}, returns="ext:PathSpec", pure=True)
