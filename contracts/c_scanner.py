"""Contracts for codelimit/common/Scanner.py and lexer_utils (shared by many properties)."""

S = "codelimit.common.Scanner:"


def install(reg):
    POS = ("forall(0, {n}, lambda j: nl_before(indices, tokens[j].location.line - 1, lexer_tokens[j][0]) and "
           "tokens[j].location.column == col_of(indices, tokens[j].location.line - 1, lexer_tokens[j][0]) and "
           "tokens[j].value == lexer_tokens[j][2] and tokens[j].token_type is lexer_tokens[j][1])")
    reg.contract(
        "codelimit.common.lexer_utils:lex", params={"lexer": "ext:Lexer", "code": "str", "filter_comments": "bool"},
        returns="list[Token]", fresh_result=True, pure=True, tolerate_unsupported=True,
        locals={"tokens": "list[Token]"},
        loops={
            0: dict(fingerprint="t in lexer_tokens", invariant={
                "ni_range": "0 <= newline_index <= len(indices)",
                "line_start": "line_start == (0 if newline_index == 0 else indices[newline_index - 1] + 1)",
                "one_token_per_lexer_token": "len(tokens) == i",
                "behind": "newline_index == 0 or (i > 0 and indices[newline_index - 1] < lexer_tokens[i - 1][0])",
                "line_of_offset": "forall(0, i, lambda j: nl_before(indices, tokens[j].location.line - 1, lexer_tokens[j][0]))",
                "column_of_offset": "forall(0, i, lambda j: tokens[j].location.column == col_of(indices, tokens[j].location.line - 1, lexer_tokens[j][0]))",
                "text_copied": "forall(0, i, lambda j: tokens[j].value == lexer_tokens[j][2])",
                "type_copied": "forall(0, i, lambda j: tokens[j].token_type is lexer_tokens[j][1])",
            }),
            1: dict(fingerprint="newline_index < len(indices) and t[0] > indices[newline_index]", invariant={
                "ni_range": "0 <= newline_index <= len(indices)",
                "line_start": "line_start == (0 if newline_index == 0 else indices[newline_index - 1] + 1)",
                "behind_this_token": "newline_index == 0 or indices[newline_index - 1] < t[0]",
            }, decreases="len(indices) - newline_index"),
        },
        call_sites={"filter_tokens": {
            "all_tokens_are_filtered": "arg0 is tokens",
            "comments_kept_iff_requested": "arg_keep_comments == (not filter_comments) and not arg_keep_whitespace and arg_keep_others",
            "one_token_per_lexer_token": "len(tokens) == len(lexer_tokens)",
            "every_token_at_the_position_of_its_offset": POS.format(n="len(tokens)"),
        }},
        ensures={"result_is_the_filtered_list": "result is call_result('filter_tokens')"},
        note="positions are stated on the unfiltered list at the call of filter_tokens; filter_tokens returns a subsequence",
        props=("C16",),
    )
    reg.contract(S + "scan_file", params={"tokens": "list[Token]", "language": "Language"}, returns="list[Measurement]",
                 fresh_result=True, note="summary used by callers; the body is verified in C05/C03")
    reg.contract(S + "generate_exclude_spec", params={"root": "ext:Path"}, returns="ext:PathSpec", pure=True)
