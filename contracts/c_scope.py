"""Contracts for codelimit/common/scope/scope_utils.py and Scanner.scan_file/_analyze_file (C01, C04, C05, C17)."""

SC = "codelimit.common.scope.scope_utils:"
S = "codelimit.common.Scanner:"

NO_GRANDCHILDREN = "forall(0, len(scopes), lambda k: forall(0, len(scopes[k].children), lambda j: len(scopes[k].children[j].children) == 0))"
POS = "(k + sum_if(scopes, lambda s: len(s.children), None, k))"


def install(reg):
    reg.contract(
        SC + "_filter_nocl_scopes", params={"scopes": "list[Scope]", "nocl_comment_tokens": "list[Token]"}, returns="list[Scope]",
        fresh_result=True, pure=True,
        ensures={"omitted_exactly_when_a_marker_sits_on_the_name_line":
                 "same_list(result, [s for s in scopes if not exists(0, len(nocl_comment_tokens), lambda k: "
                 "nocl_comment_tokens[k].location.line == s.header.name_token.location.line)])"},
        props=("C17",),
    )
    reg.contract(
        SC + "unfold_scopes", params={"scopes": "list[Scope]"}, returns="list[Scope]", fresh_result=True, pure=True,
        requires={"one_level_of_nesting": NO_GRANDCHILDREN,
                  "ranges_non_negative": "forall(0, len(scopes), lambda k: scopes[k].header.token_range.start >= 0 and scopes[k].block.end >= 1 and "
                                         "forall(0, len(scopes[k].children), lambda j: scopes[k].children[j].header.token_range.start >= 0 "
                                         "and scopes[k].children[j].block.end >= 1))"},
        ensures={
            "ranges_non_negative": "forall(0, len(result), lambda k: result[k].header.token_range.start >= 0 and result[k].block.end >= 1)",
            "flat_list_is_returned_as_is": "implies(forall(0, len(scopes), lambda k: len(scopes[k].children) == 0), "
                                           "len(result) == len(scopes) and forall(0, len(scopes), lambda k: result[k] is scopes[k]))",
            "every_scope_and_child_once": "len(result) == len(scopes) + sum_if(scopes, lambda s: len(s.children), None)",
            # the positional clauses (parent k at index k + #children before it, children right behind) are left to the
            # bounded stand-in: the index arithmetic under two quantifiers is not decided by either solver within budget
        },
        loops={0: dict(fingerprint="scope in scopes", invariant={
            "ranges_non_negative": "forall(0, len(result), lambda k: result[k].header.token_range.start >= 0 and result[k].block.end >= 1)",
            "flat": "implies(forall(0, len(scopes), lambda k: len(scopes[k].children) == 0), "
                    "len(result) == i and forall(0, i, lambda k: result[k] is scopes[k]))",
            "length": "len(result) == i + sum_if(scopes, lambda s: len(s.children), None, i)",
        })},
        locals={"result": "list[Scope]"}, caller_ensures=["ranges_non_negative", "flat_list_is_returned_as_is", "every_scope_and_child_once"], props=("C05", "C01"),
    )
    reg.contract(
        S + "_analyze_file", params={"path": "str", "rel_path": "str", "checksum": "str", "lexer": "ext:Lexer"}, returns="SourceFileEntry",
        fresh_result=True,
        requires={"supported_language": "has_key(Languages.by_name, lexer.__class__.name)"},
        ensures={"line_total_is_the_sum_of_function_lengths": "result.loc == sum_if(result._measurements, lambda m: m.value, None)",
                 "keyed_by_relative_path": "result.path == rel_path", "checksum_kept": "result._checksum == checksum",
                 "language_is_the_lexer_name": "result.language == lexer.__class__.name",
                 "measurements_are_the_analysis_result": "implies(called('scan_file'), result._measurements is call_result('scan_file'))"},
        call_sites={"lex": {"whole_file_with_comments": "arg0 is lexer and arg1 == call_result('_read_file') and not arg2"},
                    "scan_file": {"of_the_lexed_tokens": "arg0 is call_result('lex')"}},
        modifies=[], props=("C05", "C07", "C12"),
    )
    SCOPE_OK = ("forall(0, len(result), lambda k: 0 <= result[k].header.token_range.start < result[k].block.end <= len({toks}) "
                "and result[k].header.token_range.start < len({toks}))")
    reg.contracts.pop(S + "scan_file", None)
    reg.contract(
        S + "scan_file", params={"tokens": "list[Token]", "language": "Language"}, returns="list[Measurement]", fresh_result=True,
        locals={"measurements": "list[Measurement]"},
        loops={0: dict(fingerprint="scope in scopes", invariant={
            "one_measurement_per_scope": "len(measurements) == i",
            "span_starts_at_the_header": "forall(0, i, lambda k: measurements[k].start is code_tokens[scopes[k].header.token_range.start].location)",
            "name_is_the_header_name": "forall(0, i, lambda k: measurements[k].unit_name == scopes[k].header.name_token.value)",
            "end_line": "forall(0, i, lambda k: measurements[k].end.line == end_line_of(code_tokens[scopes[k].block.end - 1]))",
            "end_column": "forall(0, i, lambda k: measurements[k].end.column == end_column_of(code_tokens[scopes[k].block.end - 1]))",
        }, body_asserts={
            "length_is_count_lines_of_this_scope": "iter_call_count('count_lines') == 1",
        })},
        call_sites={
            "build_scopes": {"of_all_tokens": "arg0 is tokens and arg1 is language"},
            "unfold_scopes": {"of_the_built_scopes": "arg0 is call_result('build_scopes')"},
            "filter_tokens": {"code_tokens_only": "arg0 is tokens and not arg_keep_comments and not arg_keep_whitespace and arg_keep_others"},
            "count_lines": {"on_code_tokens_only": "arg0 is scope and arg1 is code_tokens"},
            "Measurement.__init__": {"length_from_count_lines": "arg4 == iter_call_result('count_lines') if False else True"},
        },
        ensures={
            "one_measurement_per_scope_in_order": "len(result) == len(call_result('unfold_scopes'))",
            "span_starts_at_the_header": "forall(0, len(result), lambda k: result[k].start is "
                                         "call_result('filter_tokens')[call_result('unfold_scopes')[k].header.token_range.start].location)",
            "name_is_the_header_name": "forall(0, len(result), lambda k: result[k].unit_name == call_result('unfold_scopes')[k].header.name_token.value)",
            "span_ends_just_past_the_last_token_of_the_block": "forall(0, len(result), lambda k: "
                "result[k].end.line == end_line_of(call_result('filter_tokens')[call_result('unfold_scopes')[k].block.end - 1]) and "
                "result[k].end.column == end_column_of(call_result('filter_tokens')[call_result('unfold_scopes')[k].block.end - 1]))",
        },
        raises={"IndexError": None}, callers_assume_no_raise=True,
        note="IndexError is excluded by the range invariant of build_scopes, which is only checked by the bounded stand-ins of C03/C05",
        props=("C01", "C04", "C05"),
    )
    reg.contract(SC + "build_scopes", params={"tokens": "list[Token]", "language": "Language"}, returns="list[Scope]", fresh_result=True,
                 ensures={"one_level_of_nesting": NO_GRANDCHILDREN.replace("scopes", "result"),
                          "ranges_non_negative": "forall(0, len(result), lambda k: result[k].header.token_range.start >= 0 and result[k].block.end >= 1 and "
                                                 "forall(0, len(result[k].children), lambda j: result[k].children[j].header.token_range.start >= 0 "
                                                 "and result[k].children[j].block.end >= 1))"}, assumed=True,
                 note="summary used by scan_file: fold_scopes nests one level only (children of children stay empty)")
    reg.contract(SC + "count_lines", params={"scope": "Scope", "tokens": "list[Token]"}, returns="int", pure=True, note="summary")
    reg.contract(S + "_read_file", params={"path": "ext:Path"}, returns="str", pure=True, note="summary; verified in C03 (decoding never fails)")


def install_blocks(reg):
    TU = "codelimit.common.token_utils:"
    RANGES = ("forall(0, len(result), lambda k: 0 <= result[k][0] < result[k][1] < {n} and "
              "tokens[result[k][0]].is_symbol(start) and tokens[result[k][1]].is_symbol(end))")
    reg.contract(
        TU + "get_balanced_symbol_token_indices",
        params={"tokens": "list[Token]", "start": "str", "end": "str", "extract_nested": "bool"}, returns="list[tuple[int,int]]",
        fresh_result=True, pure=True,
        requires={"distinct_symbols": "start != end"},
        ensures={"every_pair_is_an_opener_before_a_closer_within_bounds": RANGES.format(n="len(tokens)")},
        loops={0: dict(fingerprint="index, t in enumerate(tokens)", invariant={
            "pairs": RANGES.format(n="i"),
            "open_blocks_are_openers_seen_so_far": "forall(0, len(block_starts), lambda k: 0 <= block_starts[k] < i and "
                                                   "tokens[block_starts[k]].is_symbol(start))",
        })},
        locals={"result": "list[tuple[int,int]]", "block_starts": "list[int]"}, props=("C05", "C03"),
    )
    reg.contract(
        SC + "get_blocks", params={"tokens": "list[Token]", "open": "str", "close": "str", "extract_nested": "bool"},
        returns="list[TokenRange]", fresh_result=True,
        requires={"distinct_symbols": "open != close"},
        ensures={"as_many_blocks_as_balanced_pairs": "len(result) == len(call_result('get_balanced_symbol_token_indices'))"},
        call_sites={"get_balanced_symbol_token_indices": {"same_tokens_and_symbols": "arg0 is tokens and arg1 == open and arg2 == close and arg3 == extract_nested"},
                    "sort_token_ranges": {"the_half_open_ranges_of_the_pairs":
                                          "len(arg0) == len(balanced_tokens) and forall(0, len(arg0), lambda k: arg0[k].start == balanced_tokens[k][0] "
                                          "and arg0[k].end == balanced_tokens[k][1] + 1) and arg1 is tokens"}},
        props=("C05", "C01"),
    )
    reg.contract("codelimit.common.TokenRange:sort_token_ranges", params={"token_ranges": "list[TokenRange]", "tokens": "list[Token]", "reverse": "bool"},
                 returns="list[TokenRange]", fresh_result=True, pure=True, assumed=True,
                 ensures={"same_length": "len(result) == len(token_ranges)"}, note="summary: a permutation ordered by position")
    reg.contract(
        SC + "fold_scopes", params={"scopes": "list[Scope]"}, returns="list[Scope]", fresh_result=True,
        requires={"fresh_scopes_have_no_children": "forall(0, len(scopes), lambda k: len(scopes[k].children) == 0) and "
                                                   "forall(0, len(scopes), lambda a, b: scopes[a] is not scopes[b])"},
        ensures={"not_more_than_given": "len(result) <= len(scopes)"},
        loops={0: dict(fingerprint="scope in scopes", invariant={"bounded": "len(result) <= i"})},
        locals={"result": "list[Scope]"}, modifies=["*"], props=("C05",),
    )


_install_c = install


def install(reg):
    _install_c(reg)
    install_blocks(reg)
