"""Contracts for source_utils and lexer_utils (C16, C04, C17)."""

SU = "codelimit.common.source_utils:"


def install(reg):
    reg.contract(
        SU + "get_newline_indices", params={"code": "str"}, returns="list[int]", fresh_result=True, pure=True,
        ensures={
            "offsets_of_newlines": "forall(0, len(result), lambda k: 0 <= result[k] < len(code) and code[result[k]] == '\\n')",
            "strictly_increasing": "forall(0, len(result), lambda a, b: result[a] < result[b])",
            # together with the two clauses above this pins the list down (pigeonhole, a paper step): as many as there are newlines
            "all_newlines": "len(result) == count_char(code, '\\n')",
        },
        loops={0: dict(fingerprint="index, c in enumerate(code)", invariant={
            "offsets_of_newlines": "forall(0, len(result), lambda k: 0 <= result[k] < i and code[result[k]] == '\\n')",
            "strictly_increasing": "forall(0, len(result), lambda a, b: result[a] < result[b])",
            "all_newlines": "len(result) == count_char(code, '\\n', i)",
        })},
        locals={"result": "list[int]"}, caller_ensures=[], props=("C16",),
    )
    reg.contract(
        SU + "filter_tokens",
        params={"tokens": "list[Token]", "keep_whitespace": "bool", "keep_comments": "bool", "keep_others": "bool"},
        returns="list[Token]", fresh_result=True, pure=True,
        ensures={
            "exactly_the_kept_tokens_in_order":
                "same_list(result, [t for t in tokens if (keep_whitespace if t.is_whitespace() else "
                "(keep_comments if t.is_comment() else keep_others))])",
            "whitespace_never_kept_by_default": "implies(not keep_whitespace, forall(0, len(result), lambda k: not result[k].is_whitespace()))",
            "comments_only_on_request": "implies(not keep_comments and not keep_whitespace, forall(0, len(result), lambda k: not result[k].is_comment()))",
        },
        caller_ensures=[], props=("C16", "C04", "C17"),
    )


def install_nocl(reg):
    reg.contract(
        SU + "filter_nocl_comment_tokens", params={"tokens": "list[Token]"}, returns="list[Token]", fresh_result=True, pure=True,
        ensures={"exactly_the_marker_comments_in_order":
                 "same_list(result, [t for t in tokens if t.is_comment() and is_marker(t.value)])"},
        props=("C17", "C04"),
    )


_install_a = install


def install(reg):
    _install_a(reg)
    install_nocl(reg)
