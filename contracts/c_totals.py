"""Contracts for LanguageTotals / ScanTotals / SourceFileEntry (C02, C07, C18)."""

LT = "codelimit.common.LanguageTotals:LanguageTotals."


def install(reg):
    reg.contract(
        LT + "add", params={"entry": "SourceFileEntry"}, returns="None",
        ensures={
            "files": "self.files == old(self.files) + 1",
            "loc": "self.loc == old(self.loc) + entry.loc",
            "functions": "self.functions == old(self.functions) + len(entry._measurements)",
            "hard": "self.hard_to_maintain == old(self.hard_to_maintain) + count_if(entry._measurements, lambda m: cat(m.value) == 2)",
            "unm": "self.unmaintainable == old(self.unmaintainable) + count_if(entry._measurements, lambda m: cat(m.value) == 3)",
            "language_kept": "self.language == old(self.language)",
        },
        modifies=["self.files", "self.loc", "self.functions", "self.hard_to_maintain", "self.unmaintainable"],
        props=("C02", "C07"),
    )
