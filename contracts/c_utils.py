"""Contracts for codelimit/common/utils.py (C02, C07)."""

U = "codelimit.common.utils:"


def install(reg):
    for fn, val in (("make_profile", "lambda m: m.value"), ("make_count_profile", "lambda m: 1")):
        reg.contract(
            U + fn,
            params={"measurements": "list[Measurement]"},
            returns="list[int]",
            ensures={
                "len4": "len(result) == 4",
                **{f"cat{k}": f"result[{k}] == sum_if(measurements, {val}, lambda m: cat(m.value) == {k})" for k in range(4)},
            },
            loops={0: dict(fingerprint="m in measurements", invariant={
                "len4": "len(result) == 4",
                **{f"cat{k}": f"result[{k}] == sum_if(measurements, {val}, lambda m: cat(m.value) == {k}, i)" for k in range(4)},
            })},
            fresh_result=True, pure=True, props=("C02", "C07"),
        )
    reg.contract(U + "get_style_for_measurement", params={"value": "int"}, returns="ext:Style",
                 ensures={"color": "result.color == color_of(cat(value))"}, pure=True, props=("C02",))
    reg.contract(U + "get_emoji_for_measurement", params={"value": "int"}, returns="str",
                 ensures={"emoji": "result == emoji_of(cat(value))"}, pure=True, props=("C02",))


def install2(reg):
    reg.contract(U + "format_unit", params={"name": "str", "length": "int", "file": "Optional[str]"}, returns="ext:Text",
                 ensures={"separator_colour": "out_arg(1, 0).style.color == color_of(cat(length))",
                          "separator_is_text": "out_method(1) == 'append'"},
                 rt_trace=True, props=("C02",))
    reg.contract(U + "format_measurement", params={"path": "str", "measurement": "Measurement"}, returns="ext:Text",
                 ensures={
                     "n_parts": "out_len() == 12",
                     "path": "out_arg(0, 0) == path",
                     "line": "out_arg(2, 0) == str(measurement.start.line)",
                     "column": "out_arg(4, 0) == str(measurement.start.column)",
                     "value_text": "out_arg(7, 0) == str(measurement.value)",
                     "value_colour": "out_kw(7, 'style').color == color_of(cat(measurement.value))",
                     "emoji": "out_arg(9, 0) == emoji_of(cat(measurement.value))",
                     "emoji_colour": "out_kw(9, 'style').color == color_of(cat(measurement.value))",
                     "name": "out_arg(11, 0) == measurement.unit_name",
                 }, rt_trace=True, props=("C02", "C18"))


_install1 = install


def install(reg):
    _install1(reg)
    install2(reg)
