"""Contracts for codelimit/common/utils.py (C02, C07)."""

U = "codelimit.common.utils:"


def install(reg):
    for fn, val in (("make_profile", "lambda m: m.value"), ("make_count_profile", "lambda m: 1")):
        reg.contract(
            U + fn,
            params={"measurements": "list[Measurement]"},
            returns="list[int]",
            ensures={
                "len4": "len(result) == 4",
                **{f"cat{k}": f"result[{k}] == sum_if(measurements, {val}, lambda m: cat(m.value) == {k})" for k in range(4)},
            },
            loops={0: dict(fingerprint="m in measurements", invariant={
                "len4": "len(result) == 4",
                **{f"cat{k}": f"result[{k}] == sum_if(measurements, {val}, lambda m: cat(m.value) == {k}, i)" for k in range(4)},
            })},
            fresh_result=True, pure=True, props=("C02", "C07"),
        )
    reg.contract(U + "get_style_for_measurement", params={"value": "int"}, returns="ext:Style",
                 ensures={"color": "result.color == color_of(cat(value))"}, pure=True, props=("C02",))
    reg.contract(U + "get_emoji_for_measurement", params={"value": "int"}, returns="str",
                 ensures={"emoji": "result == emoji_of(cat(value))"}, pure=True, props=("C02",))
