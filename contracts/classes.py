"""Field types of repository classes (the heap schema). Field *names* are cross-checked against the
class source on every run (a new or renamed field is structural drift, never an alarm)."""


def install(reg):
    reg.cls("Location", {"line": "int", "column": "int"})
    reg.cls("Measurement", {"unit_name": "str", "start": "Location", "end": "Location", "value": "int"})
    reg.cls("ReportUnit", {"file": "str", "measurement": "Measurement"})
    reg.cls("Token", {"location": "Location", "token_type": "ext:TokType", "value": "str"})
    reg.cls("TokenRange", {"start": "int", "end": "int"})
    reg.cls("Header", {"name_token": "Token", "token_range": "TokenRange"})
    reg.cls("Scope", {"header": "Header", "block": "TokenRange", "children": "list[Scope]"})
    reg.cls("CheckResult", {"file_list": "list[tuple[ext:Path,list[Measurement]]]", "hard_to_maintain": "int",
                            "unmaintainable": "int"})
    reg.cls("LanguageTotals", {"language": "str", "files": "int", "loc": "int", "functions": "int",
                               "hard_to_maintain": "int", "unmaintainable": "int"})
    reg.cls("CodebaseEntry", {"path": "str", "name": "str"})
    reg.cls("SourceFileEntry", {"_checksum": "str", "language": "str", "loc": "int", "_profile": "list[int]",
                                "_measurements": "list[Measurement]"})
    reg.cls("SourceFolderEntry", {})
    reg.cls("SourceFolder", {"entries": "list[CodebaseEntry]", "profile": "list[int]"})
    reg.cls("Codebase", {"root": "str", "tree": "dict[str,SourceFolder]", "files": "dict[str,SourceFileEntry]",
                         "totals": "dict[str,LanguageTotals]"})
    reg.cls("ScanTotals", {"_languages_totals": "dict[str,LanguageTotals]"})
    reg.cls("LanguageTotalsDelta", {"_language_totals_current": "LanguageTotals",
                                    "_language_totals_previous": "Optional[LanguageTotals]"})
    reg.cls("ScanTotalsDelta", {"_scan_totals_current": "ScanTotals", "_scan_totals_previous": "ScanTotals"})
    reg.cls("ScanResultTable", {"_stc": "ScanTotals", "_stp": "Optional[ScanTotals]"})
    reg.cls("GithubRepository", {"owner": "str", "name": "str", "branch": "Optional[str]", "tag": "Optional[str]"})
    reg.cls("Report", {"version": "str", "uuid": "str", "timestamp": "str", "repository": "Optional[GithubRepository]",
                       "codebase": "Codebase"})
    reg.cls("ext:Style", {"color": "str"})
    # pattern engine
    reg.cls("State", {"id": "int", "transition": "list[tuple[Predicate,State]]", "epsilon_transitions": "list[State]", "@_id": "int"})
    reg.cls("Automata", {"start": "State"})
    reg.cls("DFA", {"accepting": "list[State]"})
    reg.cls("NFA", {"accepting": "State"})
    reg.cls("Pattern", {"start": "int", "end": "int", "automata": "DFA", "state": "State", "tokens": "list[Token]",
                        "predicate_map": "dict[int,Predicate]"})
    reg.cls("Predicate", {})
    reg.cls("TokenPredicate", {"satisfied": "bool"})
    reg.cls("Balanced", {"left": "TokenPredicate", "right": "TokenPredicate", "depth": "int"})
    reg.cls("And", {"left": "TokenPredicate", "right": "TokenPredicate"})
    reg.cls("Or", {"left": "TokenPredicate", "right": "TokenPredicate"})
    reg.cls("Not", {"predicate": "TokenPredicate"})
    reg.cls("Keyword", {"keyword": "str"})
    reg.cls("Symbol", {"symbol": "str"})
    reg.cls("Operator", {"symbol": "str"})
    reg.cls("TokenValue", {"value": "str"})
    reg.cls("Name", {})
    reg.cls("Identity", {"item": "any"})
