"""Spec functions, written in the translatable subset: pyvc inlines them symbolically, CPython runs them
natively during replay and in the bounded stand-ins. They are taken from the property statements."""


def cat(L):
    # C02: easy L<=15, verbose 16..30, hard-to-maintain 31..60, unmaintainable >60
    return 0 if L <= 15 else (1 if L <= 30 else (2 if L <= 60 else 3))


def color_of(c):
    return "green" if c == 0 else ("yellow" if c == 1 else ("dark_orange" if c == 2 else "red"))


def emoji_of(c):
    return "✖" if c == 3 else ("⚠" if c == 2 else "✓")


def md_symbol_of(c):
    return "❌" if c == 3 else "⚠"


def nl_before(indices, k, o):
    # exactly k of the (increasing) newline offsets lie before offset o
    return 0 <= k <= len(indices) and (k == 0 or indices[k - 1] < o) and (k == len(indices) or indices[k] >= o)


def col_of(indices, k, o):
    # 1-based column of offset o on the line that starts after the k-th newline
    return o - (0 if k == 0 else indices[k - 1] + 1) + 1


def is_marker(v):
    # C17: the comment begins, after its comment leader and case-insensitively, with the marker 'nocl'
    w = v.lower()
    body = w[1:].strip() if (w.startswith("#") or w.startswith(";")) else (w[2:].strip() if (w.startswith("//") or w.startswith("/*")) else w)
    return body.startswith("nocl")


def codebase_ok(cb):
    # representation invariant of Codebase: three separate dictionaries, and the root folder is registered
    return dict_separate(cb.files, cb.totals) and dict_separate(cb.files, cb.tree) and dict_separate(cb.totals, cb.tree) \
        and has_key(cb.tree, "./")


def end_line_of(tok):
    # line on which the text of a token ends (only "\n" ends a line)
    return tok.location.line + count_char(tok.value, "\n")


def end_column_of(tok):
    # column just past the last character of a token
    return tok.location.column + len(tok.value) if count_char(tok.value, "\n") == 0 else len(tok.value) - last_index_of(tok.value, "\n")
