import sys, faulthandler, signal
faulthandler.register(signal.SIGUSR1, all_threads=True)
faulthandler.dump_traceback_later(int(sys.argv[1]), exit=True)
sys.argv = [sys.argv[0]] + sys.argv[2:]
exec(open("/verif/dev.py").read())
