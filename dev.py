#!/usr/bin/env python3-vt
"""Developer driver: verify functions and print obligations."""
import sys, time, importlib
sys.path.insert(0, "/verif")
from pyvc.repo import Repo
from pyvc.contracts import Registry
from pyvc.engine import Engine
from pyvc import solve


def build():
    repo = Repo()
    reg = Registry()
    import contracts.classes as cl
    cl.install(reg)
    import pkgutil, contracts
    for m in pkgutil.iter_modules(contracts.__path__):
        if m.name.startswith("c_"):
            importlib.import_module("contracts." + m.name).install(reg)
    eng = Engine(repo, reg, open("/verif/contracts/specs.py").read())
    return eng


if __name__ == "__main__":
    eng = build()
    keys = sys.argv[1:] or list(eng.reg.contracts)
    for k in keys:
        matches = [c for c in eng.reg.contracts if k in c]
        for key in matches:
            t0 = time.time()
            n0 = len(eng.obligations)
            rep = eng.verify(key)
            print(f"== {key}: {rep.status} {rep.reason} paths={rep.paths} obligations={rep.n_obligations} gen={time.time()-t0:.2f}s")
            if getattr(rep, "tb", None) and "-v" in sys.argv:
                print(rep.tb)
    t0 = time.time()
    solve.discharge(eng.obligations)
    for ob in eng.obligations:
        if ob.kind == "canary":
            if ob.result == "valid":
                print("  !!! CANARY PROVED (inconsistent path):", ob.name)
            continue
        if ob.result != "valid" or "-a" in sys.argv or (ob.time or 0) > 8:
            print(f"  [{ob.result}] {ob.name} ({ob.backend}, {ob.time:.2f}s) {ob.clause[:100]} {ob.info.get('reason','')}")
    real = [o for o in eng.obligations if o.kind != "canary"]
    n = len(real)
    print(f"{sum(1 for o in real if o.result=='valid')}/{n} valid; solve {time.time()-t0:.1f}s; quick {eng.quick_calls} calls {eng.quick_time:.1f}s")
    for nt in eng.notes:
        print("note:", nt)
