"""C01 — bounded stand-in over program texts (see runtime/h_pipeline.py); contracts on the pipeline functions are added below as they are discharged."""
ID = "C01"
LEVEL = "exploration"
FUNCTIONS = ['codelimit.common.Scanner:scan_file', 'codelimit.common.scope.scope_utils:get_blocks']
BOUNDED_BUDGET = 300
TRUSTED = ["Pygments lexers (exercised, not verified)", "the canonical-program generator's expected values (computed from the derivation)"]
ASSUMPTIONS = []
BOUND = 'canonical programs of all 7 languages: 12 boundary body lengths x 4 layout styles, global code between functions, nesting first/middle/last/two children/depth 3, arrow/async/special parameter lists (quick: ~390 programs; thorough: +150 random programs per language)'
RULE = 'each program is a derivation; expected name/span/length come from the derivation; distinct = distinct program texts'


def bounded(tier, seed, fallback_for):
    from pyvc import driver
    return [driver.run_harness(ID, "h_pipeline.py", [ID, tier, str(seed)], "program-texts:" + ID,
                               BOUND, RULE)]

MANIFEST = {
    "category": "exploration",
    "technique": "contracts on the real pipeline functions discharged by z3/cvc5 (pyvc); bounded stand-in on generated program texts through the real lexers for the whole statement",
    "text": 'The statement is decided on canonical programs (bounded): a generator derives every function together with its expected name, span and length from the derivation (7 languages, incl. terse single-token lines and 3-level nests) and the real pipeline must report exactly that. Under contract and discharged for all inputs: scan_file (span starts at the header, name is the header name, span ends exactly just past the last block token, one count_lines call per scope on code tokens) and get_blocks.',
    "note": 'bounded for discovery and length (they go through Pygments and the pattern engine); build_scopes and count_lines are assumed summaries; five recorded findings (D5, D6, D8, D19, D21) are matched by input tag and role of the failing function',
    "design_ref": "DESIGN.md §6 C01",
}
