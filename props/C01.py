"""C01 — bounded stand-in over program texts (see runtime/h_pipeline.py); contracts on the pipeline functions are added below as they are discharged."""
ID = "C01"
LEVEL = "exploration"
FUNCTIONS = ['codelimit.common.Scanner:scan_file', 'codelimit.common.scope.scope_utils:get_blocks']
BOUNDED_BUDGET = 300
TRUSTED = ["Pygments lexers (exercised, not verified)", "the canonical-program generator's expected values (computed from the derivation)"]
ASSUMPTIONS = []
BOUND = 'canonical programs of all 7 languages: 12 boundary body lengths x 4 layout styles, global code between functions, nesting first/middle/last/two children/depth 3, arrow/async/special parameter lists (quick: ~390 programs; thorough: +150 random programs per language)'
RULE = 'each program is a derivation; expected name/span/length come from the derivation; distinct = distinct program texts'


def bounded(tier, seed, fallback_for):
    from pyvc import driver
    return [driver.run_harness(ID, "h_pipeline.py", [ID, tier, str(seed)], "program-texts:" + ID,
                               BOUND, RULE)]

MANIFEST = {
    "category": "exploration",
    "technique": "bounded stand-in: the statement evaluated on generated program texts through the real lexers and pipeline (contract-based proof of the pipeline functions where listed in evidence)",
    "text": 'Exact discovery, span and length are checked on every program of a canonical-program generator whose expected measurements are computed from the derivation (bounded stand-in). The span and length *clauses* are additionally contracts on scan_file/count_lines (see C05).',
    "note": 'bounded: program texts go through seven Pygments lexers and a grammar induction that no contract in reach can express; five recorded findings (D5, D6, D8, D19, D21) are listed in known_findings.json',
    "design_ref": "DESIGN.md §6 C01",
}
