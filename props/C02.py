"""C02 — thresholds and the refactoring alarm."""
ID = "C02"
LEVEL = "proof"
U = "codelimit.common.utils:"
FUNCTIONS = [
    U + "make_profile", U + "make_count_profile", U + "get_style_for_measurement", U + "get_emoji_for_measurement",
]
TRUSTED = ["pyvc (AST->SMT translation, heap encoding)", "z3 4.8/5.1, cvc5 1.0",
           "Rich shows the Style/Text it is given; typer.Exit(code) becomes the process status"]
ASSUMPTIONS = []
