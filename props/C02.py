"""C02 — length thresholds and the refactoring alarm are applied consistently."""
import z3

ID = "C02"
LEVEL = "proof"
U = "codelimit.common.utils:"
FUNCTIONS = [
    U + "make_profile", U + "make_count_profile", U + "get_style_for_measurement", U + "get_emoji_for_measurement",
    U + "format_unit", U + "format_measurement",
    "codelimit.common.CheckResult:CheckResult.add", "codelimit.common.CheckResult:CheckResult.report",
    "codelimit.common.LanguageTotals:LanguageTotals.add",
    "codelimit.commands.check:check_file", "codelimit.commands.check:check_command",
    "codelimit.common.report.Report:Report.all_report_units_sorted_by_length_asc",
    "codelimit.common.report.format_text:print_findings",
    "codelimit.common.report.format_markdown:print_findings",
    "codelimit.common.report.format_markdown:_print_findings_without_repository",
    "codelimit.common.report.format_markdown:_print_findings_with_repository",
]
TRUSTED = [
    "pyvc: AST->SMT translation of the Python subset, Boogie-style heap encoding, loop cut at sidecar invariants",
    "z3 5.1 (API) first, cvc5 1.0.3 for z3's unknowns",
    "Rich renders the Style/Text/print arguments it is given; typer.Exit(code) becomes the process exit status",
    "paper step: check's exit status follows from the proved pieces (only CheckResult.add changes the counters; it adds "
    "count(cat==3) of the list check_file hands it; that list is exactly the measurements > 30)",
]
ASSUMPTIONS = ["Python ints are mathematical integers (exact)"]
EXPLANATION = ("Every site that applies a length threshold is a function under contract whose postcondition is stated over "
               "the spec function cat(L) taken from the property statement; the obligations are generated from the real AST.")


def bounded(tier, seed, fallback_for):
    from pyvc import driver
    return [driver.run_harness(ID, "h_fs.py", [ID, tier, str(seed)], "check-command:" + ID,
                               "8 files holding one function of length 15,16,30,31,60,61,90,31 and 3 directories; check given every single path, "
                               "every 2nd ordered pair (thorough: all), 20 random 3..5-path lists (thorough 300), each with and without --quiet",
                               "exit status, listed functions, summary count and silence compared with values computed from the known lengths; "
                               "the overview printed by three scans in one process"),
            driver.run_harness(ID, "h_report.py", [ID, tier, str(seed)], "rendered-findings:" + ID,
                               "51 reports x full x repository: findings of the real print_findings (text, Markdown with and without repository links)",
                               "listed lengths = the lengths > 30 longest first, symbol = warning for 31..60 and cross for > 60, exact 'N more rows'")]


def lemmas(eng):
    """C02-agree: the spec function itself partitions the integers as the statement says (sanity of the spec)."""
    from pyvc.engine import Obligation
    L = z3.Int("L")
    cat = z3.If(L <= 15, 0, z3.If(L <= 30, 1, z3.If(L <= 60, 2, 3)))
    g = z3.And(z3.Implies(L <= 15, cat == 0), z3.Implies(z3.And(16 <= L, L <= 30), cat == 1),
               z3.Implies(z3.And(31 <= L, L <= 60), cat == 2), z3.Implies(L > 60, cat == 3))
    return [Obligation("lemma:C02::cat-matches-statement", "lemma:C02", "lemma", [], g, 0,
                       "cat(L) is easy/verbose/hard/unmaintainable exactly on <=15 / 16..30 / 31..60 / >60")]

MANIFEST = {
    "category": "proof",
    "technique": "contract-based deductive verification: pyvc VCs from the real AST, z3/cvc5",
    "text": "Each of the 16 functions that applies a length threshold or decides the exit status carries a sidecar contract whose "
            "postcondition is stated over the spec function cat(L) from the statement (and over the ghost output trace for what is "
            "printed). Obligations (postconditions, loop invariants, call-site conditions, frames) are generated from /repo's AST on "
            "every run and discharged for all integers and all lists; a failing obligation is reported with its counter-model "
            "replayed on the real function.",
    "note": "Trusted: pyvc's translation and heap encoding, z3/cvc5, Rich rendering what it is given, typer turning Exit.code into "
            "the status, extensionality of count/sum over pointwise-equal predicates, sorted() = ordered permutation. The link from "
            "the per-function contracts to the whole-program statement about check's exit status is a paper step listed in evidence.",
    "design_ref": "DESIGN.md §6 C02",
}
