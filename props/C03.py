"""C03 — bounded stand-in over program texts (see runtime/h_pipeline.py); contracts on the pipeline functions are added below as they are discharged."""
ID = "C03"
LEVEL = "exploration"
FUNCTIONS = ['codelimit.common.Scanner:_read_file', 'codelimit.commands.check:check_file', 'codelimit.commands.check:check_command', 'codelimit.commands.check:_handle_file_path', 'codelimit.commands.scan:_read_cached_report']
BOUNDED_SKIP = ['codelimit.common.Scanner:_read_file', 'codelimit.commands.check:check_file', 'codelimit.commands.check:check_command', 'codelimit.commands.check:_handle_file_path', 'codelimit.commands.scan:_read_cached_report']
TRUSTED = ["Pygments lexers (exercised, not verified)", "the canonical-program generator's expected values (computed from the derivation)"]
ASSUMPTIONS = []
BOUND = "per language: every canonical program, ~40 prefixes/suffixes/line deletions/duplications/swaps of every 8th program, 150 random token soups (<= 10 tokens over the language's lexical alphabet), 16 edge texts (quick ~3500 texts; thorough ~8x)"
RULE = 'a case is a text; failure = any exception or no termination within 20 s; distinct = distinct texts'


def bounded(tier, seed, fallback_for):
    from pyvc import driver
    return [driver.run_harness(ID, "h_pipeline.py", [ID, tier, str(seed)], "program-texts:" + ID, BOUND, RULE),
            driver.run_harness(ID, "h_fs.py", [ID, tier, str(seed)], "ways-of-naming-a-file:" + ID,
                               "check on UTF-8, Latin-1 and binary sources and on a directory, named relative, absolute, from another working "
                               "directory (absolute and relative), plus a scan of the tree (20 invocations)",
                               "every invocation must end with exit status 0 or 1 and no exception")]

MANIFEST = {
    "category": "exploration",
    "technique": "contracts on the real pipeline functions discharged by z3/cvc5 (pyvc); bounded stand-in on generated program texts through the real lexers for the whole statement",
    "text": 'Exception-freedom of the I/O shell is discharged as `raises` clauses (_read_file, check_file, check_command, _handle_file_path, _read_cached_report); totality of the analysis on arbitrary texts is explored (bounded): prefixes, suffixes, line edits, token soups, structured sketches in 7 languages, and real check/scan runs on trees with binary, Latin-1 and oddly named files from several working directories.',
    "note": 'bounded for the analysis core (Pygments, the pattern engine and scope building are outside the discharged perimeter); termination of the matcher is exercised, not proved',
    "design_ref": "DESIGN.md §6 C03",
}
