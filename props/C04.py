"""C04 — bounded stand-in over program texts (see runtime/h_pipeline.py); contracts on the pipeline functions are added below as they are discharged."""
ID = "C04"
LEVEL = "exploration"
FUNCTIONS = ['codelimit.common.Scanner:scan_file', 'codelimit.common.source_utils:filter_tokens', 'codelimit.common.source_utils:filter_nocl_comment_tokens']
BOUNDED_BUDGET = 300
TRUSTED = ["Pygments lexers (exercised, not verified)", "the canonical-program generator's expected values (computed from the derivation)"]
ASSUMPTIONS = []
BOUND = 'every 8th canonical program per language x 14 random (line boundary, comment style | blank | spaces) insertions + trailing comments on every line + trailing spaces + 3 simultaneous insertions'
RULE = 'metamorphic: names, order, lengths unchanged and lines shifted by the insertions above; distinct = distinct base programs'


def bounded(tier, seed, fallback_for):
    from pyvc import driver
    return [driver.run_harness(ID, "h_pipeline.py", [ID, tier, str(seed)], "program-texts:" + ID,
                               BOUND, RULE),
            driver.run_harness(ID, "h_fs.py", [ID, tier, str(seed)], "cached-scans:" + ID,
                               "7 languages x 20 layout-only insertions (blank, spaces, tab, comment line; top, second line, middle, end; 1 or 3 lines); "
                               "thorough: + 40 random insertions per language; real scan command twice on a temporary tree",
                               "names, order, lengths unchanged and lines shifted by the insertions above, in the report of the second (cache-reusing) scan")]

MANIFEST = {
    "category": "exploration",
    "technique": "bounded stand-in: the statement evaluated on generated program texts through the real lexers and pipeline (contract-based proof of the pipeline functions where listed in evidence)",
    "text": 'Metamorphic relation of the statement checked on canonical programs (bounded).',
    "note": 'bounded; Pygments assumed',
    "design_ref": "DESIGN.md §6 C04",
}
