"""C04 — bounded stand-in over program texts (see runtime/h_pipeline.py); contracts on the pipeline functions are added below as they are discharged."""
ID = "C04"
LEVEL = "exploration"
FUNCTIONS = ['codelimit.common.Scanner:scan_file', 'codelimit.common.source_utils:filter_tokens', 'codelimit.common.source_utils:filter_nocl_comment_tokens']
BOUNDED_BUDGET = 300
TRUSTED = ["Pygments lexers (exercised, not verified)", "the canonical-program generator's expected values (computed from the derivation)"]
ASSUMPTIONS = []
BOUND = 'every 8th canonical program per language x 14 random (line boundary, comment style | blank | spaces) insertions + trailing comments on every line + trailing spaces + 3 simultaneous insertions'
RULE = 'metamorphic: names, order, lengths unchanged and lines shifted by the insertions above; distinct = distinct base programs'


def bounded(tier, seed, fallback_for):
    from pyvc import driver
    return [driver.run_harness(ID, "h_pipeline.py", [ID, tier, str(seed)], "program-texts:" + ID,
                               BOUND, RULE),
            driver.run_harness(ID, "h_fs.py", [ID, tier, str(seed)], "cached-scans:" + ID,
                               "7 languages x 20 layout-only insertions (blank, spaces, tab, comment line; top, second line, middle, end; 1 or 3 lines); "
                               "thorough: + 40 random insertions per language; real scan command twice on a temporary tree",
                               "names, order, lengths unchanged and lines shifted by the insertions above, in the report of the second (cache-reusing) scan")]

MANIFEST = {
    "category": "exploration",
    "technique": "contracts on the real pipeline functions discharged by z3/cvc5 (pyvc); bounded stand-in on generated program texts through the real lexers for the whole statement",
    "text": 'Metamorphic relation of the statement on program texts (bounded): blank / whitespace-only / comment-only lines, trailing comments and trailing spaces are inserted and the report must keep names, order and lengths and shift lines by the insertions above; the same through the real scan command and its cache. Discharged for all inputs: filter_tokens drops exactly comments and whitespace, filter_nocl_comment_tokens keeps exactly the marker comments, scan_file measures code tokens only.',
    "note": 'bounded; Pygments assumed; build_scopes/count_lines are assumed summaries',
    "design_ref": "DESIGN.md §6 C04",
}
