"""C05 — bounded stand-in over program texts (see runtime/h_pipeline.py); contracts on the pipeline functions are added below as they are discharged."""
ID = "C05"
LEVEL = "exploration"
FUNCTIONS = ['codelimit.common.Scanner:scan_file', 'codelimit.common.scope.scope_utils:unfold_scopes', 'codelimit.common.Scanner:_analyze_file', 'codelimit.common.token_utils:get_balanced_symbol_token_indices', 'codelimit.common.scope.scope_utils:get_blocks']
BOUNDED_BUDGET = 300
TRUSTED = ["Pygments lexers (exercised, not verified)", "the canonical-program generator's expected values (computed from the derivation)"]
ASSUMPTIONS = []
BOUND = 'same texts as C03'
RULE = 'every measurement checked for ranges, token-aligned start/end, identifier name inside span, 1 <= length <= code-bearing lines, order/distinct starts'


def bounded(tier, seed, fallback_for):
    from pyvc import driver
    return [driver.run_harness(ID, "h_pipeline.py", [ID, tier, str(seed)], "program-texts:" + ID,
                               BOUND, RULE)]

MANIFEST = {
    "category": "exploration",
    "technique": "bounded stand-in: the statement evaluated on generated program texts through the real lexers and pipeline (contract-based proof of the pipeline functions where listed in evidence)",
    "text": 'Well-formedness of every reported measurement is evaluated on canonical and malformed texts (bounded).',
    "note": 'bounded; Pygments assumed',
    "design_ref": "DESIGN.md §6 C05",
}
