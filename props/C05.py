"""C05 — bounded stand-in over program texts (see runtime/h_pipeline.py); contracts on the pipeline functions are added below as they are discharged."""
ID = "C05"
LEVEL = "exploration"
FUNCTIONS = ['codelimit.common.Scanner:scan_file', 'codelimit.common.scope.scope_utils:unfold_scopes', 'codelimit.common.Scanner:_analyze_file', 'codelimit.common.token_utils:get_balanced_symbol_token_indices', 'codelimit.common.scope.scope_utils:get_blocks']
BOUNDED_BUDGET = 300
TRUSTED = ["Pygments lexers (exercised, not verified)", "the canonical-program generator's expected values (computed from the derivation)"]
ASSUMPTIONS = []
BOUND = 'same texts as C03'
RULE = 'every measurement checked for ranges, token-aligned start/end, identifier name inside span, 1 <= length <= code-bearing lines, order/distinct starts'


def bounded(tier, seed, fallback_for):
    from pyvc import driver
    return [driver.run_harness(ID, "h_pipeline.py", [ID, tier, str(seed)], "program-texts:" + ID,
                               BOUND, RULE),
            driver.run_harness(ID, "h_report.py", [ID, tier, str(seed)], "codebases:" + ID,
                               "the path sets of C07 (1..3 paths in every insertion order, random sets of 2..5), whole-codebase statistics read after every insertion",
                               "every file still holds exactly the measurements it was given and its line total is their sum; the codebase total is the sum over files")]

MANIFEST = {
    "category": "exploration",
    "technique": "contracts on the real pipeline functions discharged by z3/cvc5 (pyvc); bounded stand-in on generated program texts through the real lexers for the whole statement",
    "text": 'Well-formedness is checked on every generated text (bounded): canonical, malformed, token soups and structured sketches (several functions per line, block-less one-liners, docstrings with U+000C/U+2028) in 7 languages. Discharged for all inputs: scan_file (one measurement per scope in order, span start at the header token, exact span end, name = header name), unfold_scopes (pre-order, lengths add up), _analyze_file (line total = sum of lengths), get_balanced_symbol_token_indices, get_blocks.',
    "note": 'bounded for the clauses that depend on build_scopes (range well-formedness of scopes is an assumed summary, exercised by the stand-in)',
    "design_ref": "DESIGN.md §6 C05",
}
