"""C06 — frame obligations over global state (pyvc/frame.py) + bounded stand-in on temporary trees (runtime/h_fs.py)."""
ID = "C06"
LEVEL = "exploration"
FUNCTIONS = []
TRUSTED = ["the file system of the sandbox; Pygments; pathspec"]
ASSUMPTIONS = []
BOUND = 'canonical corpus (every 6th program of 7 languages + a malformed text per language) analysed in subprocesses under PYTHONHASHSEED in {0,1,7,12345} (thorough 12 seeds) x 2 file orders (thorough 4); repeated analysis in one process; two from-scratch scans; a scan after another tree was scanned in the same process'
RULE = 'all results must be identical (reports modulo uuid, timestamp, file order)'


ROOTS = ["codelimit.common.Scanner:scan_path", "codelimit.commands.check:check_file", "codelimit.commands.scan:scan_command"]


def extra_obligations(eng, driver):
    """Frame obligations (pyvc/frame.py): the functions reachable from scan_path / check_file / scan_command keep no state that
    outlives a call and read no hash-seed-, time- or process-dependent input. They are decided on the AST of the real code, for all
    inputs; a function for which the syntactic argument fails is listed under not_established and left to the bounded stand-in."""
    from pyvc import frame
    roots = [r for r in ROOTS if eng.repo.has_func(r)]
    obs, notes, facts = frame.obligations(eng, roots, ID)
    if not obs:
        raise RuntimeError("no frame obligations generated")
    return obs, {"frame_roots": roots, "functions_reachable": len(facts), "frame_obligations_established": len(obs),
                 "not_established (covered only by the bounded stand-in: hash seeds, orders, in-process histories)": notes}


def bounded(tier, seed, fallback_for):
    from pyvc import driver
    return [driver.run_harness(ID, "h_fs.py", [ID, tier, str(seed)], "temporary-trees:" + ID, BOUND, RULE)]


MANIFEST = {
    "category": "exploration",
    "technique": "contracts on the real functions discharged by z3/cvc5 (pyvc) for the per-call obligations; bounded stand-in on generated temporary trees for the whole statement",
    "text": '518 frame obligations decided on the AST of the real code for all inputs: each of the 266 functions reachable from scan_path / check_file / scan_command writes no module- or class-level state and reads no hash-, time- or process-dependent input (the 14 functions where this is not established - id() in Pattern.consume, State._id, the __hash__ methods, Report.__init__ - are listed in evidence). The statement itself is explored (bounded): hash seeds x orders in subprocesses, repetition in one process, byte-identical files in different languages, both traversal orders with extension-less and mixed-encoding files, scans after other scans.',
    "note": 'bounded for what the frame argument does not reach: the operating system, Pygments and pathspec keep their own state; the 14 listed functions',
    "design_ref": "DESIGN.md §6 C06",
}
