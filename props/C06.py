"""C06 — bounded stand-in on temporary trees (runtime/h_fs.py)."""
ID = "C06"
LEVEL = "exploration"
FUNCTIONS = []
TRUSTED = ["the file system of the sandbox; Pygments; pathspec"]
ASSUMPTIONS = []
BOUND = 'canonical corpus (every 6th program of 7 languages + a malformed text per language) analysed in subprocesses under PYTHONHASHSEED in {0,1,7,12345} (thorough 12 seeds) x 2 file orders (thorough 4); repeated analysis in one process; two from-scratch scans; a scan after another tree was scanned in the same process'
RULE = 'all results must be identical (reports modulo uuid, timestamp, file order)'


def bounded(tier, seed, fallback_for):
    from pyvc import driver
    return [driver.run_harness(ID, "h_fs.py", [ID, tier, str(seed)], "temporary-trees:" + ID, BOUND, RULE)]


MANIFEST = {
    "category": "exploration",
    "technique": "bounded stand-in: real commands on generated temporary trees against independently computed expectations (contracts where listed in evidence)",
    "text": 'Determinism is exercised across hash seeds, orders and in-process histories (exploration; the frame/read obligations that explain it are contracts on the matcher, listed when discharged).',
    "note": "bounded; the operating system, Pygments and pathspec are outside any contract we can discharge",
    "design_ref": "DESIGN.md §6 C06",
}
