"""C07 — bounded stand-in (runtime/h_report.py)."""
ID = "C07"
LEVEL = "exploration"
FUNCTIONS = ['codelimit.common.Codebase:Codebase.add_file', 'codelimit.common.LanguageTotals:LanguageTotals.__init__',
             'codelimit.common.LanguageTotals:LanguageTotals.add', 'codelimit.common.Codebase:Codebase.all_measurements']
BOUNDED_SKIP = list(FUNCTIONS)   # the harness below drives them through the real Codebase
TRUSTED = ["json (stdlib)"]
ASSUMPTIONS = []
BOUND = 'path sets of 1..3 paths (depth <= 3 over two directory names, two file names, plus prefix-sharing names co/core, test/tests, src/main/app) in every insertion order, 60 random sets of 2..5 paths (thorough 600), random measurement lists of 0..3 functions with boundary lengths'
RULE = 'totals per language and grand totals, file profiles, every folder profile, root profile, tree entries compared with values recomputed from the inputs; distinct = distinct ordered path lists'


def bounded(tier, seed, fallback_for):
    from pyvc import driver
    return [driver.run_harness(ID, "h_report.py", [ID, tier, str(seed)], "reports:" + ID, BOUND, RULE)]


MANIFEST = {
    "category": "exploration",
    "technique": "contracts on the real functions discharged by z3/cvc5 (pyvc); bounded stand-in with independently recomputed expectations for the whole statement",
    "text": 'Totals, profiles and the folder tree are recomputed independently for every small set of paths in every insertion order (bounded). Discharged for all inputs: Codebase.add_file keeps the representation invariant, registers the file under its path, creates and updates the totals of its language and lists it under its parent folder; LanguageTotals.__init__/add; Codebase.all_measurements returns a new list and writes nothing; the arithmetic of ScanTotals.total_* and make_profile is proved under C02/C18.',
    "note": 'bounded for the folder tree (recursive add_folder/aggregate are assumed summaries)',
    "design_ref": "DESIGN.md §6 C07",
}
