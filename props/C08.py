"""C08 — bounded stand-in (runtime/h_report.py)."""
ID = "C08"
LEVEL = "exploration"
FUNCTIONS = []
TRUSTED = ["json (stdlib)"]
ASSUMPTIONS = []
BOUND = '13 awkward strings (quote, backslash, newline, tab, control, non-ASCII, emoji, space, slash, braces, empty) in every string-valued field x with/without repository x with/without foreign version, plus 60 random reports of 0..3 files (thorough 600)'
RULE = 'both documents parse and are equal; re-read report equals the original field by field incl. totals and folder profiles; rewrite reproduces the document up to timestamp'


def bounded(tier, seed, fallback_for):
    from pyvc import driver
    return [driver.run_harness(ID, "h_report.py", [ID, tier, str(seed)], "reports:" + ID, BOUND, RULE)]


MANIFEST = {
    "category": "exploration",
    "technique": "bounded stand-in on the real code with independently recomputed expectations (contracts where listed in evidence)",
    "text": 'The round trip is executed on reports with awkward strings in every field (bounded).',
    "note": 'bounded; json module assumed',
    "design_ref": "DESIGN.md §6 C08",
}
