"""C09 — bounded stand-in on temporary trees (runtime/h_fs.py)."""
ID = "C09"
LEVEL = "exploration"
FUNCTIONS = ['codelimit.commands.scan:_read_cached_report', 'codelimit.common.Scanner:_scan_file']
BOUNDED_SKIP = ['codelimit.commands.scan:_read_cached_report', 'codelimit.common.Scanner:_scan_file']
TRUSTED = ["the file system of the sandbox; Pygments; pathspec"]
ASSUMPTIONS = []
BOUND = 'universe of 3 paths x 4 contents; 13 operations (write, delete, rename incl. across languages, touch, swap, toggle exclusion, replace cache by a poisoned one of another version / with wrong checksums); all single operations, every 3rd ordered pair (thorough: all pairs), 30 random histories of 3..6 operations (thorough 400); after every operation a real scan_command is compared with a from-scratch scan of a copy; read_report on 4 foreign versions'
RULE = 'a case is a history; failure = cached report differs from the fresh report (modulo uuid, timestamp, root, order) or a foreign-version report is displayed'


def bounded(tier, seed, fallback_for):
    from pyvc import driver
    return [driver.run_harness(ID, "h_fs.py", [ID, tier, str(seed)], "temporary-trees:" + ID, BOUND, RULE)]


MANIFEST = {
    "category": "exploration",
    "technique": "contracts on the real functions discharged by z3/cvc5 (pyvc) for the per-call obligations; bounded stand-in on generated temporary trees for the whole statement",
    "text": 'Edit histories are replayed on temporary trees with the real scan command and compared with from-scratch scans (bounded: 16 operations incl. layout-only edits, renames across languages, caches without / with another version, as singles, pairs and random histories). Discharged for all inputs: _scan_file reuses a cached entry exactly when the same relative path has the same checksum and otherwise analyses the file; _read_cached_report returns None for any unreadable or foreign-version cache and never raises.',
    "note": 'bounded for the history; the per-step contracts are the reason it holds for every history; ReportReader.from_json and calculate_checksum are assumed',
    "design_ref": "DESIGN.md §6 C09",
}
