"""C09 — bounded stand-in on temporary trees (runtime/h_fs.py)."""
ID = "C09"
LEVEL = "exploration"
FUNCTIONS = ['codelimit.commands.scan:_read_cached_report', 'codelimit.common.Scanner:_scan_file']
BOUNDED_SKIP = ['codelimit.commands.scan:_read_cached_report', 'codelimit.common.Scanner:_scan_file']
TRUSTED = ["the file system of the sandbox; Pygments; pathspec"]
ASSUMPTIONS = []
BOUND = 'universe of 3 paths x 4 contents; 13 operations (write, delete, rename incl. across languages, touch, swap, toggle exclusion, replace cache by a poisoned one of another version / with wrong checksums); all single operations, every 3rd ordered pair (thorough: all pairs), 30 random histories of 3..6 operations (thorough 400); after every operation a real scan_command is compared with a from-scratch scan of a copy; read_report on 4 foreign versions'
RULE = 'a case is a history; failure = cached report differs from the fresh report (modulo uuid, timestamp, root, order) or a foreign-version report is displayed'


def bounded(tier, seed, fallback_for):
    from pyvc import driver
    return [driver.run_harness(ID, "h_fs.py", [ID, tier, str(seed)], "temporary-trees:" + ID, BOUND, RULE)]


MANIFEST = {
    "category": "exploration",
    "technique": "bounded stand-in: real commands on generated temporary trees against independently computed expectations (contracts where listed in evidence)",
    "text": 'Edit histories are replayed on temporary trees with the real scan command (bounded); the per-step argument (cache consulted only per walked file, reuse only on equal checksum and version) is the reason it holds for all histories.',
    "note": "bounded; the operating system, Pygments and pathspec are outside any contract we can discharge",
    "design_ref": "DESIGN.md §6 C09",
}
