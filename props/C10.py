"""C10 — bounded stand-in on temporary trees (runtime/h_fs.py)."""
ID = "C10"
LEVEL = "exploration"
FUNCTIONS = ['codelimit.commands.scan:_read_cached_report']
BOUNDED_SKIP = ['codelimit.commands.scan:_read_cached_report']
TRUSTED = ["the file system of the sandbox; Pygments; pathspec"]
ASSUMPTIONS = []
BOUND = 'cache faults on a 2-file project: missing, empty, non-JSON, JSON list/null/number, directory without file / without markers, truncation at every 9th byte offset (thorough: every offset), 80 structural faults (missing key / wrong type at every level; thorough: all ~1300)'
RULE = 'after each fault: scan completes, equals the fresh report, and a second scan from the rewritten cache equals it too'


def bounded(tier, seed, fallback_for):
    from pyvc import driver
    return [driver.run_harness(ID, "h_fs.py", [ID, tier, str(seed)], "temporary-trees:" + ID, BOUND, RULE)]


MANIFEST = {
    "category": "exploration",
    "technique": "contracts on the real functions discharged by z3/cvc5 (pyvc) for the per-call obligations; bounded stand-in on generated temporary trees for the whole statement",
    "text": 'Every cache fault (missing, empty, truncated at every byte, non-JSON, wrong shape at every key, directory without file) is injected before a real scan (fault enumeration, bounded by the document used). Discharged for all inputs: _read_cached_report maps every exception class the reader can raise to "no cache".',
    "note": 'bounded by the enumerated document; the reader is an assumed summary (exception classes only)',
    "design_ref": "DESIGN.md §6 C10",
}
