"""C10 — bounded stand-in on temporary trees (runtime/h_fs.py)."""
ID = "C10"
LEVEL = "exploration"
FUNCTIONS = ['codelimit.commands.scan:_read_cached_report']
BOUNDED_SKIP = ['codelimit.commands.scan:_read_cached_report']
TRUSTED = ["the file system of the sandbox; Pygments; pathspec"]
ASSUMPTIONS = []
BOUND = 'cache faults on a 2-file project: missing, empty, non-JSON, JSON list/null/number, directory without file / without markers, truncation at every 9th byte offset (thorough: every offset), 80 structural faults (missing key / wrong type at every level; thorough: all ~1300)'
RULE = 'after each fault: scan completes, equals the fresh report, and a second scan from the rewritten cache equals it too'


def bounded(tier, seed, fallback_for):
    from pyvc import driver
    return [driver.run_harness(ID, "h_fs.py", [ID, tier, str(seed)], "temporary-trees:" + ID, BOUND, RULE)]


MANIFEST = {
    "category": "exploration",
    "technique": "bounded stand-in: real commands on generated temporary trees against independently computed expectations (contracts where listed in evidence)",
    "text": 'Every way a cache write can be cut short (prefixes) and structural faults are injected before a real scan (bounded-exhaustive for the small report).',
    "note": "bounded; the operating system, Pygments and pathspec are outside any contract we can discharge",
    "design_ref": "DESIGN.md §6 C10",
}
