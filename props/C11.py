"""C11 — bounded stand-in on temporary trees (runtime/h_fs.py)."""
ID = "C11"
LEVEL = "exploration"
FUNCTIONS = ["codelimit.common.Scanner:scan_path"]
BOUNDED_SKIP = ["codelimit.common.Scanner:scan_path"]
TRUSTED = ["the file system of the sandbox; Pygments; pathspec"]
ASSUMPTIONS = []
BOUND = "generated trees over 12 directory names (hidden, built-in excluded, ordinary, nested) x 9 file names (supported, unsupported, hidden, no extension) x 9 exclusion lists of the unambiguous gitignore classes via option / .gitignore / both x root given as absolute, relative, through '..' (quick 87 cases, thorough ~500)"
RULE = 'the set of analysed files with language and md5 is compared with an independent walker + matcher for those pattern classes'


def bounded(tier, seed, fallback_for):
    from pyvc import driver
    return [driver.run_harness(ID, "h_fs.py", [ID, tier, str(seed)], "temporary-trees:" + ID, BOUND, RULE)]


MANIFEST = {
    "category": "exploration",
    "technique": "contracts on the real functions discharged by z3/cvc5 (pyvc) for the per-call obligations; bounded stand-in on generated temporary trees for the whole statement",
    "text": 'scan_path is under contract and discharged for all inputs against the os.walk / pathspec / Pygments contracts: hidden directories are pruned in place, hidden files are never considered, excluded files are skipped, _scan_file is called once per remaining file whose lexer names a supported language, keyed by the root-relative path. The statement is also explored on generated trees (bounded): exclusion sets via option, .gitignore and config file, three ways of naming the root, extension-less names, files with blank lines.',
    "note": 'relative to the assumed contracts of os.walk, pathspec.match_file, get_lexer_for_filename and calculate_checksum',
    "design_ref": "DESIGN.md §6 C11",
}
