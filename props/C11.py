"""C11 — bounded stand-in on temporary trees (runtime/h_fs.py)."""
ID = "C11"
LEVEL = "exploration"
FUNCTIONS = ["codelimit.common.Scanner:scan_path"]
BOUNDED_SKIP = ["codelimit.common.Scanner:scan_path"]
TRUSTED = ["the file system of the sandbox; Pygments; pathspec"]
ASSUMPTIONS = []
BOUND = "generated trees over 12 directory names (hidden, built-in excluded, ordinary, nested) x 9 file names (supported, unsupported, hidden, no extension) x 9 exclusion lists of the unambiguous gitignore classes via option / .gitignore / both x root given as absolute, relative, through '..' (quick 87 cases, thorough ~500)"
RULE = 'the set of analysed files with language and md5 is compared with an independent walker + matcher for those pattern classes'


def bounded(tier, seed, fallback_for):
    from pyvc import driver
    return [driver.run_harness(ID, "h_fs.py", [ID, tier, str(seed)], "temporary-trees:" + ID, BOUND, RULE)]


MANIFEST = {
    "category": "exploration",
    "technique": "bounded stand-in: real commands on generated temporary trees against independently computed expectations (contracts where listed in evidence)",
    "text": 'The analysed set is recomputed independently on generated trees (bounded).',
    "note": "bounded; the operating system, Pygments and pathspec are outside any contract we can discharge",
    "design_ref": "DESIGN.md §6 C11",
}
