"""C12 — bounded stand-in on temporary trees (runtime/h_fs.py)."""
ID = "C12"
LEVEL = "exploration"
FUNCTIONS = ['codelimit.commands.check:check_file', 'codelimit.commands.check:_handle_file_path', 'codelimit.common.Scanner:_analyze_file', 'codelimit.common.Scanner:_read_file']
BOUNDED_SKIP = ['codelimit.commands.check:check_file', 'codelimit.commands.check:_handle_file_path', 'codelimit.common.Scanner:_analyze_file', 'codelimit.common.Scanner:_read_file']
TRUSTED = ["the file system of the sandbox; Pygments; pathspec"]
ASSUMPTIONS = []
BOUND = '6 generated trees (thorough 60) incl. a Latin-1 source and a malformed file x {root directory, absolute directory, every single file by relative path}'
RULE = "functions listed by the real check_command compared with scan's measurements > 30 (names, positions, lengths), exit status, excluded/hidden skipping"


def bounded(tier, seed, fallback_for):
    from pyvc import driver
    return [driver.run_harness(ID, "h_fs.py", [ID, tier, str(seed)], "temporary-trees:" + ID, BOUND, RULE)]


MANIFEST = {
    "category": "exploration",
    "technique": "bounded stand-in: real commands on generated temporary trees against independently computed expectations (contracts where listed in evidence)",
    "text": 'check and scan are run on the same generated trees and compared (bounded).',
    "note": "bounded; the operating system, Pygments and pathspec are outside any contract we can discharge",
    "design_ref": "DESIGN.md §6 C12",
}
