"""C12 — bounded stand-in on temporary trees (runtime/h_fs.py)."""
ID = "C12"
LEVEL = "exploration"
FUNCTIONS = ['codelimit.commands.check:check_file', 'codelimit.commands.check:_handle_file_path', 'codelimit.common.Scanner:_analyze_file', 'codelimit.common.Scanner:_read_file']
BOUNDED_SKIP = ['codelimit.commands.check:check_file', 'codelimit.commands.check:_handle_file_path', 'codelimit.common.Scanner:_analyze_file', 'codelimit.common.Scanner:_read_file']
TRUSTED = ["the file system of the sandbox; Pygments; pathspec"]
ASSUMPTIONS = []
BOUND = '6 generated trees (thorough 60) incl. a Latin-1 source and a malformed file x {root directory, absolute directory, every single file by relative path}'
RULE = "functions listed by the real check_command compared with scan's measurements > 30 (names, positions, lengths), exit status, excluded/hidden skipping"


def bounded(tier, seed, fallback_for):
    from pyvc import driver
    return [driver.run_harness(ID, "h_fs.py", [ID, tier, str(seed)], "temporary-trees:" + ID, BOUND, RULE)]


MANIFEST = {
    "category": "exploration",
    "technique": "contracts on the real functions discharged by z3/cvc5 (pyvc) for the per-call obligations; bounded stand-in on generated temporary trees for the whole statement",
    "text": 'check vs scan on generated trees, every way of reaching every file (bounded). Discharged for all inputs: check_file lists exactly the measurements > 30 of scan_file(lex(_read_file(path))) longest first, through the same _read_file decoding as scan; _handle_file_path applies the exclusion test; _analyze_file uses the same pipeline.',
    "note": 'bounded for the directory walk of check_command against scan_path (two separately verified loops; their agreement is explored)',
    "design_ref": "DESIGN.md §6 C12",
}
