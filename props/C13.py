"""C13 — bounded stand-in on the real pattern engine (runtime/h_gsm.py)."""
ID = "C13"
LEVEL = "exploration"
FUNCTIONS = ["codelimit.common.gsm.matcher:match", "codelimit.common.gsm.matcher:starts_with"]
BOUNDED_SKIP = list(FUNCTIONS)   # driven by the harness below through the real engine
TRUSTED = ["the derivative-based reference semantics in runtime/h_gsm.py"]
ASSUMPTIONS = []
BOUND = 'all pattern syntax trees with up to 5 nodes over {a,b,c} (1831 trees) plus a seeded sample of 1200 trees with 6 nodes (thorough: all up to 5 nodes, 6000 sampled of size 6) plus 100 random trees of 5..8 nodes (thorough 1000) x all sequences up to length 5 (thorough 6)'
RULE = 'match / nfa_match / starts_with compared with a Brzozowski-derivative reference; building must terminate (10 s, recursion); distinct = distinct trees'


def bounded(tier, seed, fallback_for):
    from pyvc import driver
    return [driver.run_harness(ID, "h_gsm.py", [ID, tier, str(seed)], "pattern-engine:" + ID, BOUND, RULE)]


MANIFEST = {
    "category": "exploration",
    "technique": "bounded-exhaustive stand-in on the real engine against a derivative-based reference (contracts on the matcher functions where listed in evidence)",
    "text": 'Regular-expression semantics of the engine is compared with an independent derivative-based reference on every small pattern and sequence (bounded, exhaustive within the bound). Discharged for all inputs, relative to a summary of Pattern.consume: match feeds every item in order to one pattern started at 0 on the built automaton, reports it exactly when the fully consumed run is accepting, with end = number of items and exactly the items recorded; starts_with returns at the first accepting state after at least one item (no shorter prefix was accepting), within bounds, recording exactly its items.',
    "note": 'bounded-exhaustive; the subset construction (nfa_to_dfa) is a heap-graph induction outside the reach of the SMT-only VC generator',
    "design_ref": "DESIGN.md §6 C13",
}
