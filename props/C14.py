"""C14 — bounded stand-in on the real pattern engine (runtime/h_gsm.py)."""
ID = "C14"
LEVEL = "exploration"
FUNCTIONS = []
TRUSTED = ["the derivative-based reference semantics in runtime/h_gsm.py"]
ASSUMPTIONS = []
BOUND = 'the non-nullable trees among the C13 trees x all sequences up to length 5 (thorough 6); plus the three built-in header shapes (name groups / optional keyword / keyword) over all token sequences up to length 6 (thorough 7) over {identifier, keyword, (, ), {, other} against a direct balanced-parenthesis reference'
RULE = 'bounds, items, word of the language, longest along the greedy run, order, disjointness, coverage of greedy-successful starts; reference by derivatives; isolation: a reported match ends where one pattern fed alone from its start last accepts (3 shapes with stateful predicates, also inside Or/And/Not, sequences up to length 5, thorough 6)'


def bounded(tier, seed, fallback_for):
    from pyvc import driver
    return [driver.run_harness(ID, "h_gsm.py", [ID, tier, str(seed)], "pattern-engine:" + ID, BOUND, RULE)]


MANIFEST = {
    "category": "exploration",
    "technique": "bounded-exhaustive stand-in on the real engine against a derivative-based reference (contracts on the matcher functions where listed in evidence)",
    "text": 'Search results are compared with the derivative reference on every small non-nullable pattern and sequence (bounded-exhaustive).',
    "note": 'bounded-exhaustive; one recorded finding (D19: younger match inside an older live attempt)',
    "design_ref": "DESIGN.md §6 C14",
}
