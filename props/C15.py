"""C15 — bounded stand-in on the real pattern engine (runtime/h_gsm.py)."""
ID = "C15"
LEVEL = "model_checking"
FUNCTIONS = []
TRUSTED = ["the derivative-based reference semantics in runtime/h_gsm.py"]
ASSUMPTIONS = []
BOUND = 'every shipped header and follow-up automaton (captured from the real extract_headers) x every configuration reachable with nesting depth <= 3 (thorough 5) x 171 token classes (9 token kinds x 19 distinguished values)'
RULE = 'real Pattern.consume on every (configuration, token class); failure = ambiguity error; distinct = reachable configurations'


def bounded(tier, seed, fallback_for):
    from pyvc import driver
    return [driver.run_harness(ID, "h_gsm.py", [ID, tier, str(seed)], "pattern-engine:" + ID, BOUND, RULE)]


MANIFEST = {
    "category": "model_checking",
    "technique": "bounded-exhaustive stand-in on the real engine against a derivative-based reference (contracts on the matcher functions where listed in evidence)",
    "text": 'The finite space named by the statement (automaton state x nesting-depth class x token class) is explored completely with the real consume; depth classes beyond the bound behave like the deepest explored one (Balanced only tests depth > 0).',
    "note": 'exhaustive over the stated finite abstraction up to the depth bound; token classes cover every predicate occurring in the shipped patterns',
    "design_ref": "DESIGN.md §6 C15",
}
