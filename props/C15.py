"""C15 — bounded stand-in on the real pattern engine (runtime/h_gsm.py)."""
ID = "C15"
LEVEL = "proof"
FUNCTIONS = []
TRUSTED = ["the derivative-based reference semantics in runtime/h_gsm.py"]
ASSUMPTIONS = []
BOUND = 'every shipped header and follow-up automaton (captured from the real extract_headers) x every configuration reachable with nesting depth <= 3 (thorough 5) x every token class (each of the ~80 token types Pygments defines x 25 distinguished spellings)'
RULE = 'real Pattern.consume on every (configuration, token class); failure = ambiguity error; distinct = reachable configurations'


def extra_obligations(eng, driver):
    """Deductive part: symbolic execution of the real Pattern.consume on every shipped automaton (pyvc/c15.py)."""
    from pyvc import c15
    from pyvc.engine import Engine
    import os
    specs = open(os.path.join(driver.VERIF, "contracts", "specs.py")).read()
    autos = c15.load_automata(driver)
    obs, summaries = [], []
    for A in autos:
        e1 = Engine(eng.repo, eng.reg, specs)
        e1._inline_seen = set()
        o, s = c15.analyse_automaton(e1, A)
        for x in o:
            x.eng = e1
        obs.extend(o)
        summaries.append(s)
        eng.used_assumptions |= e1.used_assumptions
        eng.quick_calls += e1.quick_calls
        eng.quick_time += e1.quick_time
        eng.paths += e1.paths
    if not obs or len(summaries) < 10:
        raise RuntimeError("no automata / no obligations generated")
    return obs, {"automata": summaries,
                 "encoding": "predicate_map pre-populated with one copy per transition predicate (lazy deepcopy of a pristine predicate has depth 0); "
                             "token type and value symbolic; invariant candidates per (state, Balanced copy): depth == 0, depth >= 0, depth >= 1 (Houdini)"}


def bounded(tier, seed, fallback_for):
    from pyvc import driver
    return [driver.run_harness(ID, "h_gsm.py", [ID, tier, str(seed)], "pattern-engine:" + ID, BOUND, RULE)]


MANIFEST = {
    "category": "proof",
    "technique": "deductive: symbolic execution of the real Pattern.consume over each shipped DFA with a symbolic token, Houdini invariant on nesting depths, z3; plus exhaustive exploration of the finite abstraction with the real code",
    "text": 'For each of the 17 shipped header/follow-up automata (built by the real extract_headers/nfa_to_dfa and dumped as data) the real consume and the real predicate accept methods are executed symbolically from every state with an arbitrary token (type constrained only by the disjointness of Pygments token subtrees, value an arbitrary string) and arbitrary nesting depths satisfying an inductive invariant found by Houdini; the obligation is that the ambiguity error is unreachable - for every depth, not a bounded one. In addition: the finite space named by the statement (automaton state x nesting-depth class x token class) is explored completely with the real consume; depth classes beyond the bound behave like the deepest explored one (Balanced only tests depth > 0).',
    "note": 'exhaustive over the stated finite abstraction up to the depth bound; token classes cover every predicate occurring in the shipped patterns',
    "design_ref": "DESIGN.md §6 C15",
}
