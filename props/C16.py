"""C16 — token positions are faithful to the source text."""
ID = "C16"
LEVEL = "proof"
FUNCTIONS = ["codelimit.common.source_utils:get_newline_indices", "codelimit.common.source_utils:filter_tokens",
             "codelimit.common.lexer_utils:lex"]
BOUNDED_SKIP = ["codelimit.common.lexer_utils:lex"]
TRUSTED = ["Pygments lexer contract LC: get_tokens_unprocessed yields (offset, type, text) with text == code[offset:offset+len(text)], "
           "offsets non-decreasing and tokens not overlapping (validated at run time on every text of the bounded check)"]
ASSUMPTIONS = []
BOUND = ("per language: every 10th canonical program, 16 hand-written edge texts (multi-line tokens, tabs, CR, form feed, non-ASCII, "
         "tokens adjacent to newlines, with/without trailing newline), 100 random token soups (thorough: 1000)")
RULE = "for both comment settings: text at (line, column) equals the token text; strictly increasing, non-overlapping; no whitespace token kept; comments kept iff requested"


def bounded(tier, seed, fallback_for):
    from pyvc import driver
    return [driver.run_harness(ID, "h_pipeline.py", [ID, tier, str(seed)], "program-texts:" + ID, BOUND, RULE)]


MANIFEST = {
    "category": "proof",
    "technique": "contract-based deductive verification of lex/get_newline_indices/filter_tokens (pyvc, z3) modulo the lexer contract; bounded validation on real lexers",
    "text": "lex is proved to give every token the line/column of its offset (loop invariants over the newline-index list, both branches), "
            "get_newline_indices to return exactly the offsets of newlines, filter_tokens to keep exactly the non-whitespace tokens and the "
            "comments on request - for every text and every token list satisfying the lexer contract. The lexer contract itself and the end-to-end "
            "statement are validated on real lexers by a bounded check.",
    "note": "Trusted: Pygments (lexer contract LC), pyvc, z3. The bounded part is labelled as such in evidence and never counted as proved.",
    "design_ref": "DESIGN.md §6 C16",
}
