"""C17 — bounded stand-in over program texts (see runtime/h_pipeline.py); contracts on the pipeline functions are added below as they are discharged."""
ID = "C17"
LEVEL = "exploration"
FUNCTIONS = ['codelimit.common.source_utils:filter_nocl_comment_tokens', 'codelimit.common.scope.scope_utils:_filter_nocl_scopes']
BOUNDED_BUDGET = 400
TRUSTED = ["Pygments lexers (exercised, not verified)", "the canonical-program generator's expected values (computed from the derivation)"]
ASSUMPTIONS = []
BOUND = '3 functions x marker spellings (5 brace-style / 3 hash-style) x 7 languages + non-marker comments + marker on another line'
RULE = 'marked function omitted, the others unchanged; comments merely containing the word do not suppress'


def bounded(tier, seed, fallback_for):
    from pyvc import driver
    return [driver.run_harness(ID, "h_pipeline.py", [ID, tier, str(seed)], "program-texts:" + ID,
                               BOUND, RULE)]

MANIFEST = {
    "category": "exploration",
    "technique": "contracts on the real pipeline functions discharged by z3/cvc5 (pyvc); bounded stand-in on generated program texts through the real lexers for the whole statement",
    "text": 'Discharged for all inputs: filter_nocl_comment_tokens returns exactly the comments that begin, after their leader and case-insensitively, with nocl, in order; _filter_nocl_scopes omits exactly the scopes with such a comment on the line of their name. Independence ("changes nothing else") is explored (bounded): marker spellings, comments that merely mention the marker, marking every flat function of 60 structured sketches per language.',
    "note": 'bounded for the independence clause (goes through build_scopes); Pygments assumed',
    "design_ref": "DESIGN.md §6 C17",
}
