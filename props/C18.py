"""C18 — rendered report, diff and findings show exactly the stored numbers."""
ID = "C18"
LEVEL = "proof"
_ST = "codelimit.common.ScanTotals:ScanTotals."
_LD = "codelimit.common.LanguageTotalsDelta:LanguageTotalsDelta."
_SD = "codelimit.common.ScanTotalsDelta:ScanTotalsDelta."
_F = ["files", "functions", "loc", "hard_to_maintain", "unmaintainable"]
FUNCTIONS = (
    [_ST + "total_" + f for f in _F] + [_ST + "language_total", _ST + "languages_totals", _ST + "__init__"]
    + [_LD + f for f in _F] + [_LD + "__init__"] + [_SD + "total_" + f for f in _F] + [_SD + "__init__"]
    + ["codelimit.common.ScanResultTable:ScanResultTable._populate", "codelimit.common.ScanResultTable:ScanResultTable.__init__",
       "codelimit.common.report.format_markdown:_print_totals",
       "codelimit.common.report.format_text:print_totals", "codelimit.common.report.format_markdown:print_totals",
       "codelimit.common.report.Report:Report.all_report_units_sorted_by_length_asc",
       "codelimit.common.report.format_text:print_findings", "codelimit.common.report.format_markdown:print_findings",
       "codelimit.common.report.format_markdown:_print_findings_without_repository",
       "codelimit.common.report.format_markdown:_print_findings_with_repository",
       "codelimit.common.utils:format_measurement"]
)
TRUSTED = [
    "pyvc: AST->SMT translation, heap encoding; f-string formatting as uninterpreted injective-free formatters fmt_<spec>(int)",
    "z3 5.1 / cvc5 1.0.3", "Rich renders the cells/print arguments it is given (locale C)",
    "sorted(): ordered permutation; dict.values() in insertion order",
]
ASSUMPTIONS = []
def bounded(tier, seed, fallback_for):
    from pyvc import driver
    return [driver.run_harness(ID, "h_report.py", [ID, tier, str(seed)], "rendered-reports:" + ID,
                               "11 hand-picked current/previous report pairs (0->n, n->0, language only in one report, equal totals with different rows, "
                               "10/11/36 findings) + 40 random pairs (thorough 600) over 4 languages, each with/without --full and with/without repository",
                               "the overview rows, totals row, order, findings and 'N more rows' parsed from the text and Markdown output of the real "
                               "print functions are compared with figures computed from the inputs")]


MANIFEST = {
    "category": "proof",
    "technique": "contract-based deductive verification: pyvc VCs from the real AST (ghost output trace, call-site obligations), z3/cvc5",
    "text": "Every function between the stored totals and what is shown is under contract: the ten delta formatters return the figure, "
            "annotated with current-previous exactly when they differ; the text table and the Markdown table are proved to build each "
            "language row from the current totals and the *previous report's* totals of the same language (call-site obligations), rows in "
            "loc-descending order, totals as sums over languages; both findings printers show the units longer than 30, longest first, cut "
            "to ten exactly when not full and more than ten, with the exact remainder.",
    "note": "Trusted: pyvc, z3/cvc5, Rich, number formatting as uninterpreted functions of the integer (what ':n' renders is assumed). "
            "Completeness of the findings list (every unit > 30 is listed) is not proved here (soundness and order are).",
    "design_ref": "DESIGN.md §6 C18",
}
