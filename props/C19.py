"""C19 — summary percentages and verdict are sane."""
ID = "C19"
LEVEL = "proof"
FUNCTIONS = [
    "codelimit.common.report.Report:Report.quality_profile_percentage",
    "codelimit.common.report.format_text:print_summary",
    "codelimit.common.report.format_markdown:print_summary",
    "codelimit.common.SummaryTable:SummaryTable.__init__",
]
TRUSTED = [
    "pyvc: AST->SMT translation; floats as reals with one relative rounding error |e| <= 2^-53 per operation",
    "z3 5.1 (nonlinear integer/real arithmetic), cvc5 for unknowns",
    "assumed summary of Report.quality_profile: four non-negative integers with total < 2^40",
    "Rich renders the cells/print arguments it is given",
]
ASSUMPTIONS = ["float arithmetic: correctly rounded IEEE-754 doubles, operands and results normal and < 2^53 in magnitude"]
# Obligations that the linear absolute-error float model cannot decide are retried under the error ladder
# (errors proportional to the magnitude of small intermediate results); both models over-approximate IEEE doubles.
ENV = {"PYVC_LADDER": "8,16,24"}

MANIFEST = {
    "category": "proof",
    "technique": "contract-based deductive verification: pyvc VCs from the real AST (floats as reals with rounding error), z3/cvc5",
    "text": "Report.quality_profile_percentage carries the five clauses of the statement as postconditions over every quality profile "
            "of four non-negative integers (total < 2^40): range, sum, within two points, never 0% above 0.001%, empty codebase; the two "
            "summary printers and the summary table are proved to show exactly those numbers and to pick the verdict template from "
            "u > 0 or h > 20. Float arithmetic is modelled as exact reals with one rounding error per operation, so the proof covers "
            "every profile, not a sweep.",
    "note": "Trusted: pyvc, z3/cvc5 nonlinear arithmetic, IEEE-754 round-to-nearest doubles, the assumed summary of quality_profile "
            "(four non-negative ints, total < 2^40), Rich rendering. Counter-models are replayed on the real function with the model's "
            "profile substituted for quality_profile (stated in the replay file).",
    "design_ref": "DESIGN.md §6 C19",
}


def bounded(tier, seed, fallback_for):
    from pyvc import driver
    return [driver.run_harness(ID, "h_report.py", [ID, tier, str(seed)], "rendered-summaries:" + ID,
                               "60 generated codebases (thorough 800) of 1..4 files with 0..4 functions of boundary lengths, summary rendered after every "
                               "add_file / aggregate step; 6 hand-picked ones (hard-to-maintain exactly / just above / just below 20 %, a tiny "
                               "share next to a huge one, files added after aggregate, repeated aggregate)",
                               "percentages and verdict parsed from the text and Markdown summaries of the real print_summary compared with the "
                               "statement evaluated on the lengths that were added")]


def lemmas(eng):
    """fdiv-gap: for integers 0 < t < 2^40 and 100000*a > t the exact quotient q (q*t == a) is at least
    1/100000 + 1/(100000*2^40). Used as an axiom on the uninterpreted division; proved here in nonlinear arithmetic."""
    import z3
    from pyvc.engine import Obligation
    a, t = z3.Ints("a t")
    q = z3.Real("q")
    gap = z3.RealVal(1) / 100000 + z3.RealVal(1) / (100000 * 2 ** 40)
    hyp = [t > 0, t < 2 ** 40, 100000 * a > t, q * z3.ToReal(t) == z3.ToReal(a)]
    return [Obligation("lemma:C19::fdiv-gap", "lemma:C19", "lemma", hyp, q >= gap, 0,
                       "0 < t < 2^40 and 100000*a > t and q*t == a  ==>  q >= 1/100000 + 1/(100000*2^40)")]

# bounded stand-in for the percentage function: quality_profile is replaced by enumerated profiles
BOUNDED_STUBS = {"codelimit.common.report.Report:Report.quality_profile_percentage":
                 {"codelimit.common.report.Report:Report.quality_profile": "profiles"}}
