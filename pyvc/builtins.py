"""Models of CPython built-ins, container methods, spec combinators and external libraries.

Every model here is part of the trusted base (DESIGN.md §4) and is listed in the evidence under
`trusted_base` when it takes part in a proof.
"""
from __future__ import annotations

import ast
import os

import z3
from .values import FA

from .values import *
from .pytypes import *
from . import engine as E
from .loops import VCSeq, VEnum, VRange, VReversed, VDictView, IterModel, concrete_sequence

EPS = z3.RealVal(1) / z3.RealVal(2 ** 53)


class Builtins:
    builtins = {"len", "sum", "sorted", "min", "max", "range", "enumerate", "str", "int", "isinstance", "print",
                "list", "set", "next", "reversed", "zip", "any", "all", "abs", "id", "hash", "bool", "tuple",
                "open", "super", "ceil", "floor", "float", "repr", "type", "dict", "round"}
    spec_builtins = {"forall", "exists", "implies", "old", "iff", "sum_if", "count_if", "fresh", "trace_len",
                     "trace_method", "trace_arg", "trace_kw", "trace_target", "ite", "same_list", "fmt", "is_none",
                     "list_eq", "sorted_desc_by", "iter_trace_len", "iter_trace_arg", "iter_trace_method",
                     "iter_trace_kw", "has_key", "perm_of", "strcat", "old_len", "typename", "called", "iter_called",
                     "out_len", "out_method", "out_arg", "out_kw", "call_result", "iter_call_result", "call_count",
                     "iter_call_count", "dict_values", "dict_get", "dict_keys", "count_char", "dict_separate", "last_index_of"}
    type_names = {"ValueError", "KeyError", "IndexError", "TypeError", "Exception", "UnicodeDecodeError",
                  "StopIteration", "RuntimeError", "AttributeError", "OSError", "FileNotFoundError",
                  "NotImplementedError", "RecursionError", "AssertionError", "BaseException", "ZeroDivisionError",
                  "LookupError", "UnicodeError", "NameError"}

    def __init__(self, eng):
        self.eng = eng
        self.sym_classes = []  # predicate equivalence classes for count/sum/filter symbols
        self.externals = {}
        self.ext_methods = {}
        self.ext_ctor_attrs = {}
        from . import externals as X
        X.install(self)

    # ------------------------------------------------------------------ formatting
    def fmt_fn(self, spec):
        name = "fmt_" + "".join(ch if ch.isalnum() else "p" if ch == "+" else "_" for ch in (spec or "d"))
        return z3.Function(name, z3.IntSort(), z3.StringSort())

    def format_value(self, st, v, spec, conv, node):
        eng = self.eng
        if isinstance(v, E.VOpt):
            return z3.If(v.none, z3.StringVal("None"), self.format_value(st, v.inner, spec, conv, node))
        if isinstance(v, VStr) and spec == "":
            return v.t
        if isinstance(v, (VInt, VBool)) and not (isinstance(v, VBool)):
            if spec == "":
                return z3.IntToStr(v.t) if False else self.fmt_fn("")(v.t)
            return self.fmt_fn(spec)(v.t)
        if isinstance(v, VReal):
            f = z3.Function("fmt_real_" + "".join(ch if ch.isalnum() else "_" for ch in spec), z3.RealSort(), z3.StringSort())
            return f(v.t)
        r = self.to_str(st, v, node)
        if spec:
            f = z3.Function("fmt_str_" + "".join(ch if ch.isalnum() else "_" for ch in spec), z3.StringSort(), z3.StringSort())
            return f(r.t)
        return r.t

    def to_str(self, st, v, node):
        eng = self.eng
        if isinstance(v, VStr):
            return v
        if isinstance(v, VInt):
            return VStr(self.fmt_fn("")(v.t))
        if isinstance(v, VBool):
            return VStr(z3.If(v.t, z3.StringVal("True"), z3.StringVal("False")))
        if isinstance(v, VNone):
            return VStr("None")
        if isinstance(v, E.VOpt):
            return VStr(z3.If(v.none, z3.StringVal("None"), self.to_str(st, v.inner, node).t))
        if isinstance(v, VObj):
            m = v.cls.find_method("__str__")
            if m is not None:
                return eng.call_function(st, m, [v], {}, node)
            f = z3.Function("str_of_obj", z3.IntSort(), z3.StringSort())
            return VStr(f(v.ref))
        if isinstance(v, (VList, VCList)):
            if isinstance(v, VCList):
                items = st.cl[v.id]
                if all(isinstance(i, VInt) for i in items):
                    f = z3.Function(f"str_of_intlist{len(items)}", *([z3.IntSort()] * len(items)), z3.StringSort())
                    return VStr(f(*[i.t for i in items]))
                v = eng.materialize(st, v)
            f = z3.Function("str_of_list_" + sort_name(sort_of(v.elem)),
                            z3.ArraySort(z3.IntSort(), sort_of(v.elem)), z3.IntSort(), z3.StringSort())
            return VStr(f(z3.Select(st.eltmap(sort_of(v.elem)), v.ref), eng.list_len(st, v)))
        if isinstance(v, VExt):
            a = st.ext_attrs(v)
            if "$str" in a:
                return a["$str"]
            f = z3.Function("str_of_ext_" + v.kind, z3.IntSort(), z3.StringSort())
            return VStr(f(self.eng.ext_term(st, v)))
        if isinstance(v, E.VOpaque):
            f = z3.Function("str_of_any", z3.IntSort(), z3.StringSort())
            return VStr(f(v.t))
        if isinstance(v, E.VLine):
            f = z3.Function("str_of_line", v.t.sort(), z3.StringSort())
            return VStr(f(v.t))
        if isinstance(v, VTuple):
            raise E.Unsupported("str of tuple", node)
        raise E.Unsupported(f"str() of {v!r}", node)

    def str_repeat(self, s, n):
        f = z3.Function("str_repeat", z3.StringSort(), z3.IntSort(), z3.StringSort())
        return f(s, n)

    # ------------------------------------------------------------------ floats (reals with relative error)
    def round_real(self, st, exact, bound=None):
        """IEEE-754 double rounding of an exact real result x: x*(1+e), |e| <= 2^-53. When a magnitude
        bound |x| <= B is known the (weaker, linear) absolute form |r - x| <= 2^-53 * B is used instead."""
        self.eng.used_assumptions.add("float ops modelled as the exact real result with relative rounding error |e| <= 2^-53 "
                                      "(operands and results normal doubles, magnitude < 2^53)")
        if bound is not None:
            r = st.fresh("fr", z3.RealSort())
            d = EPS * z3.RealVal(bound)
            st.assume(z3.And(r >= exact - d, r <= exact + d))
            # ladder: the error is relative, so small results carry proportionally smaller errors
            for sh in [int(x) for x in os.environ.get('PYVC_LADDER', '').split(',') if x]:
                lvl = z3.RealVal(1) / z3.RealVal(2 ** sh)
                st.assume(z3.Implies(z3.And(exact <= lvl, exact >= -lvl),
                                     z3.And(r >= exact - EPS * lvl, r <= exact + EPS * lvl)))
            v = VReal(r)
            v.bound = bound + 1
            return v
        e = st.fresh("fe", z3.RealSort())
        st.assume(z3.And(e >= -EPS, e <= EPS))
        v = VReal(exact * (1 + e))
        v.bound = None
        return v

    def _bound_of(self, v):
        if isinstance(v, VReal):
            b = getattr(v, "bound", None)
            if b is None and z3.is_rational_value(z3.simplify(v.t)):
                fr = z3.simplify(v.t).as_fraction()
                return abs(fr.numerator // fr.denominator) + 1
            return b
        if isinstance(v, VInt):
            t = z3.simplify(v.t)
            if z3.is_int_value(t):
                return abs(t.as_long())
        return None

    def fdiv_fn(self):
        """Exact real quotient of two integers as an uninterpreted function with (sound) field/order axioms;
        keeps the verification conditions linear. The defining equation fdiv(x,y)*y == x is only used when
        searching counter-models."""
        f = z3.Function("fdiv", z3.IntSort(), z3.IntSort(), z3.RealSort())
        if not getattr(self, "_fdiv_ax", False):
            self._fdiv_ax = True
            a, b, t = z3.Ints("fda! fdb! fdt!")
            ax = self.eng.axioms
            ax.append(FA([a, t], z3.Implies(z3.And(t > 0, a >= 0, a <= t), z3.And(f(a, t) >= 0, f(a, t) <= 1)),
                                patterns=[f(a, t)]), keys={"fdiv"})
            ax.append(FA([a, b, t], z3.Implies(t != 0, f(a, t) + f(b, t) == f(a + b, t)),
                                patterns=[z3.MultiPattern(f(a, t), f(b, t))]), keys={"fdiv"})
            ax.append(FA([t], z3.Implies(t != 0, f(t, t) == 1), patterns=[f(t, t)]), keys={"fdiv"})
            ax.append(FA([t], z3.Implies(t != 0, f(0, t) == 0), patterns=[f(0, t)]), keys={"fdiv"})
            ax.append(FA([a, b, t], z3.Implies(z3.And(t > 0, a <= b), f(a, t) <= f(b, t)),
                                patterns=[z3.MultiPattern(f(a, t), f(b, t))]), keys={"fdiv"})
            # integrality gap (proved as lemma:C19::fdiv-gap by z3 in nonlinear arithmetic on every C19 run)
            gap = z3.RealVal(1) / 100000 + z3.RealVal(1) / (100000 * 2 ** 40)
            ax.append(FA([a, t], z3.Implies(z3.And(t > 0, t < 2 ** 40, 100000 * a > t), f(a, t) >= gap),
                                patterns=[f(a, t)]), keys={"fdiv"})
            self.eng.used_assumptions.add("exact real division a/t modelled by an uninterpreted function with the axioms: "
                                          "0<=a<=t => 0<=a/t<=1; a/t+b/t=(a+b)/t; t/t=1; 0/t=0; monotone in a for t>0")
        return f

    def float_div(self, st, x, y):
        """int / int: the exact quotient, then one rounding (no rounding inside specifications)."""
        f = self.fdiv_fn()
        xs, ys = z3.simplify(x, som=True), z3.simplify(y, som=True)
        q = f(xs, ys)
        # eager ground instances of the additivity axiom among quotients with the same denominator
        reg = dict(st.ghost.get("fdiv", {}))
        nums = list(reg.get(ys.get_id(), []))
        if not any(n.eq(xs) for n in nums):
            for b in nums[:8]:
                sm = z3.simplify(xs + b, som=True)
                st.assume(z3.Implies(ys != 0, q + f(b, ys) == f(sm, ys)))
                if sm.eq(ys):
                    st.assume(z3.Implies(ys != 0, f(sm, ys) == 1))
            nums.append(xs)
            reg[ys.get_id()] = nums
            st.ghost = dict(st.ghost)
            st.ghost["fdiv"] = reg
        if st.spec_mode:
            v = VReal(q)
            v.bound = None
            return v
        bound = None
        if self.eng.quick_sat(st.pc, z3.Not(z3.And(y > 0, x >= 0, x <= y))) == "unsat":
            bound = 1
            st.assume(z3.And(q >= 0, q <= 1))
        return self.round_real(st, q, bound)

    def float_binop(self, st, op, a, b, node):
        eng = self.eng
        x, y = eng.as_real(a), eng.as_real(b)
        if st.spec_mode:
            # specifications speak about exact real arithmetic
            if isinstance(op, ast.Add):
                return VReal(x + y)
            if isinstance(op, ast.Sub):
                return VReal(x - y)
            if isinstance(op, ast.Mult):
                return VReal(x * y)
            raise E.Unsupported("real division by a real in a specification", node)
        ba, bb = self._bound_of(a), self._bound_of(b)
        if isinstance(op, ast.Add):
            return self.round_real(st, x + y, (ba + bb) if ba is not None and bb is not None else None)
        if isinstance(op, ast.Sub):
            return self.round_real(st, x - y, (ba + bb) if ba is not None and bb is not None else None)
        if isinstance(op, ast.Mult):
            return self.round_real(st, x * y, (ba * bb) if ba is not None and bb is not None else None)
        if isinstance(op, ast.Div):
            eng.require(st, y != 0, "ZeroDivisionError", node, "float division")
            return self.round_real(st, x / y, None)
        raise E.Unsupported("float op", node)

    # ------------------------------------------------------------------ lines as an abstract order (C04-E)
    def line_compare(self, st, op, a, b, node):
        if not (isinstance(a, E.VLine) and isinstance(b, E.VLine)):
            raise E.GenericityViolation(f"a line number is compared with a non-line value", node)
        lt = z3.Function("line_lt", a.t.sort(), a.t.sort(), z3.BoolSort())
        if isinstance(op, ast.Lt):
            return lt(a.t, b.t)
        if isinstance(op, ast.Gt):
            return lt(b.t, a.t)
        if isinstance(op, ast.LtE):
            return z3.Not(lt(b.t, a.t))
        if isinstance(op, ast.GtE):
            return z3.Not(lt(a.t, b.t))
        raise E.Unsupported("line comparison", node)

    def line_arith(self, st, op, a, b, node):
        raise E.GenericityViolation("arithmetic on a line number", node)

    # ------------------------------------------------------------------ attribute access on non-repo values
    def get_attr(self, st, base, attr, node):
        if isinstance(base, (VStr, VList, VCList, VDict, VCDict, E.VSet, VTuple)):
            return VFunc("method", self_v=base, name=attr)
        if isinstance(base, VExc):
            if attr in base.kwargs:
                return base.kwargs[attr]
            if attr == "args":
                return VTuple(base.args)
            if attr == "code" and base.tname == "Exit":
                return base.args[0] if base.args else VInt(0)
            raise E.Unsupported(f"exception attribute {attr}", node)
        if isinstance(base, VExt):
            a = st.ext_attrs(base)
            if attr in a:
                return a[attr]
            sig = self.ext_sigs.get((base.kind, attr))
            if sig is not None and sig.get("attr"):
                from . import externals as X
                return X.uninterp(self, st, f"{base.kind}.{attr}", [base], sig["ret"], node)
            schema = self.eng.reg.classes.get("ext:" + base.kind, {})
            if attr in schema:
                v = self.eng.fresh_value(st, schema[attr], f"x_{base.kind}_{attr}")
                st.ext_set(base, attr, v)
                return v
            return VFunc("method", self_v=base, name=attr)
        if isinstance(base, E.VOpaque):
            return VFunc("method", self_v=base, name=attr)
        if isinstance(base, VFunc) and attr == "__name__":
            return VStr(getattr(base, "name", "f"))
        raise E.Unsupported(f"attribute {attr} of {base!r}", node)

    def subscript(self, st, base, idx, node):
        eng = self.eng
        if isinstance(base, VDict):
            return self.dict_getitem(st, base, idx, node)
        if isinstance(base, VCDict):
            if isinstance(idx, VStr) and idx.concrete() is not None:
                if idx.concrete() in base.items:
                    return base.items[idx.concrete()]
                raise E.PyRaise(VExc("KeyError", (idx,)), node)
            raise E.Unsupported("symbolic key into concrete dict", node)
        if isinstance(base, VStr):
            if not isinstance(idx, VInt):
                raise E.Unsupported("str index", node)
            n = z3.Length(base.t)
            j = eng.norm_index(st, n, idx.t)
            eng.require(st, z3.And(j >= 0, j < n), "IndexError", node, "string index")
            return VStr(char_at(base.t, j))
        if isinstance(base, VExt):
            return self.ext_subscript(st, base, idx, node)
        if isinstance(base, E.VOpaque):
            return self.opaque_subscript(st, base, idx, node)
        raise E.Unsupported(f"subscript of {base!r}", node)

    def store_subscript(self, st, base, idx, v, node):
        if isinstance(base, VDict):
            return self.dict_setitem(st, base, idx, v, node)
        raise E.Unsupported(f"subscript store on {base!r}", node)

    def store_slice(self, st, base, sl, v, node):
        # dirs[:] = [...]  (os.walk pruning protocol) -> replace the whole content
        eng = self.eng
        if sl.lower is None and sl.upper is None and sl.step is None and isinstance(base, VList):
            src = v if isinstance(v, VList) else eng.materialize(st, v, base.elem)
            es = sort_of(base.elem)
            st.heap[("LEN",)] = E.SStore(st.lenmap(), base.ref, eng.list_len(st, src))
            em = st.eltmap(es)
            st.heap[("ELT", sort_name(es))] = E.SStore(em, base.ref, z3.Select(em, src.ref))
            ln = getattr(node, "lineno", 0)
            st.writes.append((("LEN",), base.ref, ln))
            st.writes.append((("ELT", sort_name(es)), base.ref, ln))
            st.trace.append(Event(base, "slice-assign", [src], {}, ln))
            return
        raise E.Unsupported("slice assignment", node)

    # ------------------------------------------------------------------ slices
    def slice(self, st, base, lo, hi, step, node):
        eng = self.eng
        if isinstance(base, VStr):
            if step is not None:
                raise E.Unsupported("string slice with step", node)
            n = z3.Length(base.t)
            a = self._slice_bound(lo, n, 0)
            b = self._slice_bound(hi, n, n)
            return VStr(z3.SubString(base.t, a, z3.If(b > a, b - a, 0)))
        if isinstance(base, VCList):
            items = list(st.cl[base.id])
            def cv(x):
                if x is None:
                    return None
                t = z3.simplify(x.t)
                if z3.is_int_value(t):
                    return t.as_long()
                raise E.Unsupported("symbolic slice of concrete list", node)
            return st.new_clist(items[cv(lo):cv(hi):cv(step)], base.elem)
        if isinstance(base, VTuple):
            def cv(x):
                return None if x is None else z3.simplify(x.t).as_long()
            return VTuple(base.items[cv(lo):cv(hi):cv(step)])
        if isinstance(base, VList):
            n = eng.list_len(st, base)
            if step is not None:
                sv = z3.simplify(step.t)
                if z3.is_int_value(sv) and sv.as_long() == -1 and lo is None and hi is None:
                    return self.list_reversed_copy(st, base)
                raise E.Unsupported("list slice with step", node)
            a = self._slice_bound(lo, n, 0)
            b = self._slice_bound(hi, n, n)
            ln = z3.If(b > a, b - a, 0)
            res = eng.new_list(st, base.elem, ln)
            es = sort_of(base.elem)
            k = z3.Int("sk!")
            src = z3.Select(st.eltmap(es), base.ref)
            dst = z3.Select(st.eltmap(es), res.ref)
            st.assume(FA([k], z3.Implies(z3.And(k >= 0, k < ln), z3.Select(dst, k) == z3.Select(src, a + k)),
                                patterns=[z3.Select(dst, k)]))
            return res
        raise E.Unsupported(f"slice of {base!r}", node)

    def _slice_bound(self, v, n, default):
        if v is None:
            return default if not isinstance(default, int) else z3.IntVal(default)
        x = v.t
        x = z3.If(x < 0, x + n, x)
        return z3.If(x < 0, 0, z3.If(x > n, n, x))

    def list_reversed_copy(self, st, l):
        eng = self.eng
        n = eng.list_len(st, l)
        res = eng.new_list(st, l.elem, n)
        es = sort_of(l.elem)
        k = z3.Int("rk!")
        src = z3.Select(st.eltmap(es), l.ref)
        dst = z3.Select(st.eltmap(es), res.ref)
        st.assume(FA([k], z3.Implies(z3.And(k >= 0, k < n), z3.Select(dst, k) == z3.Select(src, n - 1 - k)),
                            patterns=[z3.Select(dst, k)]))
        return res

    def list_concat(self, st, a, b, node):
        eng = self.eng
        if isinstance(a, VCList) and isinstance(b, VCList):
            return st.new_clist(st.cl[a.id] + st.cl[b.id], a.elem)
        if isinstance(a, VCList):
            a = eng.materialize(st, a, b.elem)
        if isinstance(b, VCList):
            b = eng.materialize(st, b, a.elem)
        na, nb = eng.list_len(st, a), eng.list_len(st, b)
        res = eng.new_list(st, a.elem, na + nb)
        es = sort_of(a.elem)
        k = z3.Int("ck!")
        sa = z3.Select(st.eltmap(es), a.ref)
        sb = z3.Select(st.eltmap(es), b.ref)
        dst = z3.Select(st.eltmap(es), res.ref)
        st.assume(FA([k], z3.Implies(z3.And(k >= 0, k < na), z3.Select(dst, k) == z3.Select(sa, k)),
                            patterns=[z3.Select(dst, k)]))
        st.assume(FA([k], z3.Implies(z3.And(k >= 0, k < nb), z3.Select(dst, na + k) == z3.Select(sb, k)),
                            patterns=[z3.Select(sb, k)]))
        st.assume(FA([k], z3.Implies(z3.And(k >= na, k < na + nb), z3.Select(dst, k) == z3.Select(sb, k - na)),
                            patterns=[z3.Select(dst, k)]))
        return res

    def list_eq(self, st, a, b):
        eng = self.eng
        if isinstance(a, VCList) and isinstance(b, VCList):
            ia, ib = st.cl[a.id], st.cl[b.id]
            if len(ia) != len(ib):
                return z3.BoolVal(False)
            return z3.And([eng.values_equal(st, x, y) for x, y in zip(ia, ib)]) if ia else z3.BoolVal(True)
        if isinstance(a, VCList):
            a, b = b, a
        if isinstance(b, VCList):
            items = st.cl[b.id]
            n = eng.list_len(st, a)
            cs = [n == len(items)]
            for k, it in enumerate(items):
                cs.append(eng.values_equal(st, eng.list_get_raw(st, a, z3.IntVal(k)), it))
            return z3.And(cs)
        na, nb = eng.list_len(st, a), eng.list_len(st, b)
        k = z3.Int("ek!")
        xa = eng.list_get_raw(st, a, k)
        xb = eng.list_get_raw(st, b, k)
        return z3.And(na == nb, FA([k], z3.Implies(z3.And(k >= 0, k < na), eng.values_equal(st, xa, xb))))

    # ------------------------------------------------------------------ membership
    def contains(self, st, container, x, node):
        eng = self.eng
        if isinstance(container, VCList):
            items = st.cl[container.id]
            return z3.Or([eng.values_equal(st, it, x, node) for it in items]) if items else z3.BoolVal(False)
        if isinstance(container, VTuple):
            return z3.Or([eng.values_equal(st, it, x, node) for it in container.items]) if container.items else z3.BoolVal(False)
        if isinstance(container, VList):
            n = eng.list_len(st, container)
            k = z3.Int("mk!")
            el = eng.list_get_raw(st, container, k)
            s2 = st.fork()
            s2.spec_mode = 1
            eq = eng.values_equal(s2, el, x, node)
            return z3.Exists([k], z3.And(k >= 0, k < n, eq))
        if isinstance(container, VDict):
            return self.dict_has(st, container, x)
        if isinstance(container, VCDict):
            if isinstance(x, VStr):
                return z3.Or([x.t == z3.StringVal(k) for k in container.items]) if container.items else z3.BoolVal(False)
        if isinstance(container, VDictView) and container.what == "keys":
            return self.contains(st, container.d, x, node)
        if isinstance(container, VStr) and isinstance(x, VStr):
            return z3.Contains(container.t, x.t)
        if isinstance(container, E.VSet):
            return self.set_has(st, container, x)
        if isinstance(container, VExt):
            return self.ext_contains(st, container, x, node)
        if isinstance(container, E.VOpaque):
            f = z3.Function("opaque_has_str", z3.IntSort(), z3.StringSort(), z3.BoolSort())
            if isinstance(x, VStr):
                return f(container.t, x.t)
        raise E.Unsupported(f"membership in {container!r}", node)

    # ------------------------------------------------------------------ builtin functions
    def call_builtin(self, st, name, args, kwargs, node):
        m = getattr(self, "bi_" + name, None)
        if m is None:
            raise E.Unsupported(f"builtin {name}", node)
        return m(st, args, kwargs, node)

    def bi_len(self, st, args, kwargs, node):
        v = args[0]
        eng = self.eng
        if isinstance(v, (VList, VCList)):
            return VInt(eng.list_len(st, v))
        if isinstance(v, VStr):
            return VInt(z3.Length(v.t))
        if isinstance(v, VTuple):
            return VInt(len(v.items))
        if isinstance(v, VDict):
            return VInt(self.dict_len(st, v))
        if isinstance(v, VCDict):
            return VInt(len(v.items))
        if isinstance(v, VDictView):
            return VInt(self.dict_len(st, v.d))
        if isinstance(v, E.VSet):
            return VInt(self.set_len(st, v))
        if isinstance(v, VObj):
            m = v.cls.find_method("__len__")
            if m is not None:
                return eng.call_function(st, m, [v], {}, node)
        raise E.Unsupported(f"len of {v!r}", node)

    def bi_str(self, st, args, kwargs, node):
        if not args:
            return VStr("")
        return self.to_str(st, args[0], node)

    def bi_repr(self, st, args, kwargs, node):
        return self.to_str(st, args[0], node)

    def bi_int(self, st, args, kwargs, node):
        v = args[0]
        if isinstance(v, VInt):
            return v
        if isinstance(v, VBool):
            return VInt(self.eng.as_int(v))
        raise E.Unsupported("int() conversion", node)

    def bi_bool(self, st, args, kwargs, node):
        return VBool(self.eng.truthy(st, args[0], node))

    def bi_float(self, st, args, kwargs, node):
        return VReal(self.eng.as_real(args[0]))

    def bi_abs(self, st, args, kwargs, node):
        v = args[0]
        if isinstance(v, VInt):
            return VInt(z3.If(v.t >= 0, v.t, -v.t))
        raise E.Unsupported("abs", node)

    def bi_ceil(self, st, args, kwargs, node):
        v = args[0]
        if isinstance(v, VInt):
            return v
        x = v.t
        return VInt(-z3.ToInt(-x))

    def bi_floor(self, st, args, kwargs, node):
        v = args[0]
        if isinstance(v, VInt):
            return v
        return VInt(z3.ToInt(v.t))

    def bi_round(self, st, args, kwargs, node):
        v = args[0]
        if isinstance(v, VInt):
            return v
        if len(args) > 1:
            raise E.Unsupported("round with digits", node)
        # round half to even
        x = v.t
        fl = z3.ToInt(x)
        fr = x - z3.ToReal(fl)
        half = z3.RealVal(1) / 2
        return VInt(z3.If(fr < half, fl, z3.If(fr > half, fl + 1, z3.If(fl % 2 == 0, fl, fl + 1))))

    def bi_isinstance(self, st, args, kwargs, node):
        v, t = args
        names = []
        ts = t.items if isinstance(t, VTuple) else [t]
        res = []
        for tt in ts:
            res.append(self._isinstance(st, v, tt, node))
        return VBool(z3.Or(res) if len(res) > 1 else res[0])

    def _isinstance(self, st, v, t, node):
        if isinstance(t, VClass):
            if isinstance(v, VObj):
                ok = any(c.key == t.cls.key for c in v.cls.mro())
                if ok:
                    return (v.ref != 0) if v.nullable else z3.BoolVal(True)
                # static type may be a base class of the dynamic type: only decidable when leaf
                subs = [c for m in self.eng.repo.modules.values() for c in m.classes.values()
                        if any(b.key == v.cls.key for b in c.mro()[1:])]
                if any(any(b.key == t.cls.key for b in c.mro()) for c in subs):
                    raise E.Unsupported("isinstance on abstract static type", node)
                return z3.BoolVal(False)
            if isinstance(v, VExc):
                return z3.BoolVal(v.tname == t.cls.name)
            return z3.BoolVal(False)
        if isinstance(t, VType) or (isinstance(t, VFunc) and t.kind == "builtin"):
            nm = t.name
            table = {"str": VStr, "int": (VInt,), "list": (VList, VCList), "bool": VBool, "tuple": VTuple,
                     "dict": (VDict, VCDict), "float": VReal, "set": E.VSet}
            if nm in table:
                if isinstance(v, E.VOpaque):
                    f = z3.Function("opaque_is_" + nm, z3.IntSort(), z3.BoolSort())
                    return f(v.t)
                return z3.BoolVal(isinstance(v, table[nm]))
        if isinstance(t, VExt) or (isinstance(t, VFunc) and t.kind == "extfn"):
            if isinstance(v, VExt):
                nm = t.name.split(".")[-1] if isinstance(t, VFunc) else t.kind
                return z3.BoolVal(v.kind == nm)
            return z3.BoolVal(False)
        raise E.Unsupported(f"isinstance against {t!r}", node)

    def bi_print(self, st, args, kwargs, node):
        st.trace.append(Event("stdout", "print", list(args), dict(kwargs), getattr(node, "lineno", 0)))
        return VNone()

    def bi_id(self, st, args, kwargs, node):
        v = args[0]
        if isinstance(v, (VObj, VList, VDict)):
            return VInt(v.ref)
        if isinstance(v, E.VOpaque):
            return VInt(v.t)
        raise E.Unsupported("id()", node)

    def bi_range(self, st, args, kwargs, node):
        ts = [self.eng.as_int(a) for a in args]
        if len(ts) == 1:
            lo, hi = z3.IntVal(0), ts[0]
        elif len(ts) == 2:
            lo, hi = ts
        else:
            raise E.Unsupported("range with step", node)
        lo_s, hi_s = z3.simplify(lo), z3.simplify(hi)
        if z3.is_int_value(lo_s) and z3.is_int_value(hi_s) and hi_s.as_long() - lo_s.as_long() <= 64:
            return VCSeq([VInt(k) for k in range(lo_s.as_long(), hi_s.as_long())])
        return VRange(lo, hi)

    def bi_enumerate(self, st, args, kwargs, node):
        inner = args[0]
        start = self.eng.as_int(args[1]) if len(args) > 1 else (self.eng.as_int(kwargs["start"]) if "start" in kwargs else z3.IntVal(0))
        seq = concrete_sequence(self.eng, st, inner)
        if seq is not None:
            s0 = z3.simplify(start)
            return VCSeq([VTuple([VInt(z3.simplify(s0 + k)), it]) for k, it in enumerate(seq)])
        return VEnum(inner, start)

    def bi_reversed(self, st, args, kwargs, node):
        seq = concrete_sequence(self.eng, st, args[0])
        if seq is not None:
            return VCSeq(list(reversed(seq)))
        return VReversed(args[0])

    def bi_zip(self, st, args, kwargs, node):
        seqs = [concrete_sequence(self.eng, st, a) for a in args]
        if all(s is not None for s in seqs):
            return VCSeq([VTuple(list(t)) for t in zip(*seqs)])
        raise E.Unsupported("zip over symbolic sequences", node)

    def bi_list(self, st, args, kwargs, node):
        if not args:
            return st.new_clist([], TAny)
        v = args[0]
        seq = concrete_sequence(self.eng, st, v)
        if seq is not None:
            return st.new_clist(seq, TAny)
        if isinstance(v, VList):
            return self.slice(st, v, None, None, None, node)
        if isinstance(v, VDictView) and v.what == "keys":
            return self.slice(st, self.dict_keys_list(st, v.d), None, None, None, node)
        raise E.Unsupported(f"list() of {v!r}", node)

    def bi_tuple(self, st, args, kwargs, node):
        seq = concrete_sequence(self.eng, st, args[0]) if args else []
        if seq is not None:
            return VTuple(seq)
        raise E.Unsupported("tuple()", node)

    def bi_set(self, st, args, kwargs, node):
        if not args:
            return self.new_set(st, TAny)
        return self.set_from_iter(st, args[0], node)

    def bi_sum(self, st, args, kwargs, node):
        eng = self.eng
        v = args[0]
        seq = concrete_sequence(eng, st, v)
        if seq is not None:
            t = z3.IntVal(0)
            for it in seq:
                t = t + eng.as_int(it)
            return VInt(z3.simplify(t))
        comp = st.ghost.get("comps", {}).get(str(v.ref)) if isinstance(v, VList) else None
        if comp is not None:
            # sum([f(x) for x in xs if p(x)]) == sum_if(xs, f, p)   (fusion; trusted lemma schema)
            eng.used_assumptions.add("lemma schema: sum of a comprehension equals the conditional sum over its source (fusion)")
            return VInt(self.sum_sym(st, comp.arr, comp.n, comp.map_fn, comp.pred_fn, comp.src_elem, comp.state))
        if isinstance(v, VList) and v.elem.kind == "int":
            n = eng.list_len(st, v)
            arr = eng.list_arr(st, v)
            c = self.const_len(st, n)
            if c is not None:
                t = z3.IntVal(0)
                for k in range(c):
                    t = t + z3.Select(arr, k)
                return VInt(t)
            return VInt(self.sum_sym(st, arr, n, None, None, TInt))
        if isinstance(v, VComp):
            return VInt(self.sum_sym(st, v.arr, v.n, v.map_fn, v.pred_fn, v.src_elem, v.state))
        raise E.Unsupported(f"sum of {v!r}", node)

    def const_len(self, st, n, limit=16):
        """If the path condition fixes the length n to a small constant, return it."""
        ns = z3.simplify(n)
        if z3.is_int_value(ns):
            return ns.as_long() if ns.as_long() <= limit else None
        s = z3.Solver()
        s.set("timeout", 1000)
        for a in st.pc:
            if not z3.is_quantifier(a):
                s.add(a)
        if s.check() != z3.sat:
            return None
        v = s.model().eval(n, model_completion=True)
        if not z3.is_int_value(v) or not (0 <= v.as_long() <= limit):
            return None
        if self.eng.quick_sat(st.pc, n != v) == "unsat":
            return v.as_long()
        return None

    def bi_min(self, st, args, kwargs, node):
        return self._minmax(st, args, kwargs, node, True)

    def bi_max(self, st, args, kwargs, node):
        return self._minmax(st, args, kwargs, node, False)

    def _minmax(self, st, args, kwargs, node, is_min):
        eng = self.eng
        if len(args) >= 2:
            vals = args
        else:
            vals = concrete_sequence(eng, st, args[0])
            if vals is None:
                return self.minmax_sym(st, args[0], is_min, node)
        if not vals:
            raise E.PyRaise(VExc("ValueError", (VStr("empty sequence"),)), node)
        cur = vals[0]
        for v in vals[1:]:
            if isinstance(cur, VReal) or isinstance(v, VReal):
                a, b = eng.as_real(cur), eng.as_real(v)
                cur = VReal(z3.If(b < a, b, a) if is_min else z3.If(b > a, b, a))
            else:
                a, b = eng.as_int(cur), eng.as_int(v)
                cur = VInt(z3.If(b < a, b, a) if is_min else z3.If(b > a, b, a))
        return cur

    def minmax_sym(self, st, v, is_min, node):
        """min/max over a generator expression or list of ints: result is a bound attained by some element."""
        eng = self.eng
        if isinstance(v, VList) and v.elem.kind == "int":
            n = eng.list_len(st, v)
            arr = z3.Select(st.eltmap(z3.IntSort()), v.ref)
            elem = lambda k: z3.Select(arr, k)
        elif isinstance(v, VComp) and v.pred_fn is None:
            n = v.n
            elem = lambda k: eng.as_int(v.map_fn(v.state, eng.wrap(v.state, z3.Select(v.arr, k), v.src_elem)))
        else:
            raise E.Unsupported("min/max over this iterable", node)
        eng.require(st, n > 0, "ValueError", node, "min/max of empty sequence")
        r = st.fresh("mm", z3.IntSort())
        w = st.fresh("mmw", z3.IntSort())
        k = z3.Int("mmk!")
        st.assume(z3.And(w >= 0, w < n, elem(w) == r))
        st.assume(FA([k], z3.Implies(z3.And(k >= 0, k < n), (r <= elem(k)) if is_min else (r >= elem(k)))))
        return VInt(r)

    def bi_any(self, st, args, kwargs, node):
        seq = concrete_sequence(self.eng, st, args[0])
        if seq is not None:
            ts = [self.eng.truthy(st, x, node) for x in seq]
            return VBool(z3.Or(ts) if ts else z3.BoolVal(False))
        raise E.Unsupported("any over symbolic", node)

    def bi_all(self, st, args, kwargs, node):
        seq = concrete_sequence(self.eng, st, args[0])
        if seq is not None:
            ts = [self.eng.truthy(st, x, node) for x in seq]
            return VBool(z3.And(ts) if ts else z3.BoolVal(True))
        raise E.Unsupported("all over symbolic", node)

    def bi_next(self, st, args, kwargs, node):
        eng = self.eng
        v = args[0]
        if isinstance(v, VComp):
            # first element satisfying the predicate, StopIteration when there is none
            return self.comp_first(st, v, node)
        raise E.Unsupported("next()", node)

    def bi_super(self, st, args, kwargs, node):
        # super().__init__(...) inside a method of the function under execution
        selfv = st.env.get("self")
        fk = st.ghost.get("fn_key") or self.eng.cur_fn
        cname = fk.split(":")[1].split(".")[0]
        mod = fk.split(":")[0]
        cls = self.eng.repo.modules[mod].classes[cname]
        return VSuper(selfv, cls)

    def bi_sorted(self, st, args, kwargs, node):
        return self.sorted_model(st, args[0], kwargs.get("key"), kwargs.get("reverse"), node)

    def bi_open(self, st, args, kwargs, node):
        return self.call_external(st, "builtins.open", args, kwargs, node)

    def bi_type(self, st, args, kwargs, node):
        v = args[0]
        if isinstance(v, VObj):
            return VClass(v.cls)
        raise E.Unsupported("type()", node)

    def bi_hash(self, st, args, kwargs, node):
        f = z3.Function("py_hash", z3.IntSort(), z3.IntSort())
        v = args[0]
        if isinstance(v, VStr):
            g = z3.Function("py_hash_str", z3.StringSort(), z3.IntSort())
            return VInt(g(v.t))
        if isinstance(v, VTuple):
            return VInt(st.fresh("hash", z3.IntSort()))
        if isinstance(v, VObj):
            m = v.cls.find_method("__hash__")
            if m:
                return self.eng.call_function(st, m, [v], {}, node)
            return VInt(f(v.ref))
        raise E.Unsupported("hash()", node)

    def bi_dict(self, st, args, kwargs, node):
        if not args and not kwargs:
            return VCDict({})
        raise E.Unsupported("dict()", node)

    # ------------------------------------------------------------------ sorted
    def sorted_model(self, st, v, key, reverse, node):
        """sorted(xs, key=f, reverse=r): fresh list, a permutation of xs ordered by key (stability is not modelled).
        Returned list ys comes with ghost bijection perm: ys[k] == xs[perm(k)]."""
        eng = self.eng
        if isinstance(v, VCList):
            items = st.cl[v.id]
            if len(items) <= 1:
                return st.new_clist(items, v.elem)
            v = eng.materialize(st, v)
        if isinstance(v, VDictView) and v.what == "values":
            v = self.dict_values_list(st, v.d)
        if isinstance(v, VComp):
            v = self.comp_to_list(st, v, node)
        if not isinstance(v, VList):
            raise E.Unsupported(f"sorted of {v!r}", node)
        rev = False
        if reverse is not None:
            r = z3.simplify(eng.truthy(st, reverse))
            if z3.is_true(r):
                rev = True
            elif not z3.is_false(r):
                raise E.Unsupported("sorted with symbolic reverse", node)
        n = eng.list_len(st, v)
        res = eng.new_list(st, v.elem, n)
        es = sort_of(v.elem)
        src = z3.Select(st.eltmap(es), v.ref)
        dst = z3.Select(st.eltmap(es), res.ref)
        st.fresh_ctr += 1
        perm = z3.Function(f"perm!{st.fresh_ctr}", z3.IntSort(), z3.IntSort())
        inv = z3.Function(f"perminv!{st.fresh_ctr}", z3.IntSort(), z3.IntSort())
        k = z3.Int("sk!")
        j = z3.Int("sj!")
        st.assume(FA([k], z3.Implies(z3.And(k >= 0, k < n),
                                            z3.And(perm(k) >= 0, perm(k) < n, inv(perm(k)) == k,
                                                   z3.Select(dst, k) == z3.Select(src, perm(k)))),
                            patterns=[z3.Select(dst, k)]))
        st.assume(FA([j], z3.Implies(z3.And(j >= 0, j < n),
                                            z3.And(inv(j) >= 0, inv(j) < n, perm(inv(j)) == j)),
                            patterns=[inv(j)]))
        # ordering
        s2 = st.fork()
        s2.spec_mode = 1

        def keyof(idx):
            el = eng.wrap(s2, z3.Select(dst, idx), v.elem)
            if key is None:
                return el
            return eng.call(s2, key, [el], {}, node)

        a, b = z3.Int("sa!"), z3.Int("sb!")
        ka, kb = keyof(a), keyof(b)
        le = eng.compare(s2, ast.GtE() if rev else ast.LtE(), ka, kb, node)
        pats = []
        st.assume(FA([a, b], z3.Implies(z3.And(a >= 0, a < b, b < n), le)))
        st.ghost = dict(st.ghost)
        st.ghost.setdefault("perms", {})
        st.ghost["perms"] = dict(st.ghost["perms"])
        st.ghost["perms"][str(res.ref)] = (perm, inv, v)
        self.eng.used_assumptions.add("sorted(): returns a fresh list that is a permutation of its input ordered by the key (stability not modelled)")
        return res

    # ------------------------------------------------------------------ comprehension
    def comprehension(self, st, n, kind):
        eng = self.eng
        if len(n.generators) != 1:
            raise E.Unsupported("nested comprehension", n)
        g = n.generators[0]
        if g.is_async:
            raise E.Unsupported("async comprehension", n)
        itv = eng.ev(g.iter, st)
        seq = concrete_sequence(eng, st, itv)
        if seq is not None:
            out = []
            for it in seq:
                eng.assign(st, g.target, it, n)  # comprehension scope leak is harmless here (names are fresh per use)
                keep = True
                for c in g.ifs:
                    if not eng.decide(st, eng.truthy(st, eng.ev(c, st), n)):
                        keep = False
                        break
                if keep:
                    out.append(eng.ev(n.elt, st))
            if kind == "set":
                return self.new_set_from(st, out, n)
            return st.new_clist(out, out[0].typ if out else TAny)
        return self.comp_symbolic(st, n, g, itv, kind)

    # symbolic comprehension -> VComp (lazy), materialised as a list characterised by count/filter axioms
    def comp_symbolic(self, st, n, g, itv, kind):
        eng = self.eng
        if isinstance(itv, VDictView):
            if itv.what == "values":
                itv = self.dict_values_list(st, itv.d)
            elif itv.what == "keys":
                itv = self.dict_keys_list(st, itv.d)
            else:
                raise E.Unsupported("comprehension over dict items", n)
        if isinstance(itv, VRange):
            return self.comp_over_range(st, n, g, itv, kind)
        if isinstance(itv, VEnum) and isinstance(itv.inner, VList):
            return self.comp_over_enum(st, n, g, itv, kind)
        if isinstance(itv, VComp):
            itv = self.comp_to_list(st, itv, n)
        if isinstance(itv, E.VSet):
            return self.comp_over_set(st, n, g, itv, kind)
        if not isinstance(itv, VList):
            raise E.Unsupported(f"comprehension over {itv!r}", n)
        es = sort_of(itv.elem)
        arr = eng.list_arr(st, itv)
        nlen = eng.list_len(st, itv)
        cstate = st.fork()
        cstate.spec_mode = 1
        target = g.target
        env0 = dict(st.env)

        def bind(s, x):
            s.env = dict(env0)
            eng.assign(s, target, x, n)

        def pred_fn(s, x):
            saved = s.env
            bind(s, x)
            try:
                ts = [eng.truthy(s, eng.ev(c, s), n) for c in g.ifs]
            finally:
                s.env = saved
            return z3.And(ts) if len(ts) > 1 else ts[0]

        def map_fn(s, x):
            saved = s.env
            bind(s, x)
            try:
                return eng.ev(n.elt, s)
            finally:
                s.env = saved

        bulk = self.simple_ctor_call(st, n.elt)
        if bulk is not None and not g.ifs and kind == "list" and not st.spec_mode:
            return self.bulk_construct(st, n, g, itv, arr, nlen, bind, bulk)
        # safety of evaluating the element expression / conditions on every element (no exception inside)
        if not st.spec_mode:
            self.comp_safety(st, n, g, itv, arr, nlen, bind)
        comp = VComp(arr, nlen, itv.elem, map_fn, pred_fn if g.ifs else None, cstate, n)
        if kind == "gen":
            return comp
        if kind == "set":
            return self.set_from_iter(st, comp, n)
        return self.comp_to_list(st, comp, n)

    def simple_ctor_call(self, st, elt):
        """elt is `Cls(args...)` of a repository class whose __init__ only stores its parameters (or a dataclass)."""
        eng = self.eng
        if not isinstance(elt, ast.Call) or elt.keywords or not isinstance(elt.func, ast.Name):
            return None
        try:
            fv = eng.lookup(st, elt.func.id, elt)
        except E.Unsupported:
            return None
        if not isinstance(fv, VClass):
            return None
        cls = fv.cls
        init = cls.find_method("__init__")
        fields = []
        if init is None and cls.is_dataclass:
            fields = [(f, i) for i, (f, _a, _d) in enumerate(cls.dc_fields)]
        elif init is not None:
            params = [p.arg for p in init.node.args.args][1:]
            for stt in init.node.body:
                if isinstance(stt, ast.Expr) and isinstance(stt.value, ast.Constant):
                    continue
                if isinstance(stt, ast.Assign) and len(stt.targets) == 1 and isinstance(stt.targets[0], ast.Attribute) \
                        and isinstance(stt.targets[0].value, ast.Name) and stt.targets[0].value.id == "self" \
                        and isinstance(stt.value, ast.Name) and stt.value.id in params:
                    fields.append((stt.targets[0].attr, params.index(stt.value.id)))
                else:
                    return None
            if len(elt.args) != len(params):
                return None
        else:
            return None
        if len(elt.args) != len(fields) and init is None:
            return None
        return cls, fields

    def bulk_construct(self, st, n, g, itv, arr, nlen, bind, bulk, _inner=None):
        """[Cls(e1(x), ..) for x in xs]: one fresh object per element, refs base+1+k; fields given by the argument terms.
        Nested simple constructors among the arguments get their own block of references."""
        eng = self.eng
        cls, fields = bulk
        k = z3.Int("bk!")
        s = st.fork()
        s.spec_mode = 1
        x_k = eng.wrap(s, z3.Select(arr, k), itv.elem)
        eng.assume_wf(s, x_k)
        saved_env = s.env
        bind(s, x_k)
        blocks = []     # (cls, base_offset_index, {field: term(k)})
        arg_terms = []
        nested = []
        for a in n.elt.args:
            inner = self.simple_ctor_call(s, a)
            if inner is not None:
                icls, ifields = inner
                ivals = {}
                for f, idx in ifields:
                    v = eng.ev(a.args[idx], s)
                    ivals[f] = eng.unwrap(s, v, eng.field_type(icls, f))
                nested.append((icls, ivals))
                arg_terms.append(("nested", len(nested) - 1))
            else:
                arg_terms.append(("val", eng.ev(a, s)))
        s.env = saved_env
        base = st.alloc
        total_blocks = 1 + len(nested)
        ref_of = lambda blk, kk: base + 1 + blk * nlen + kk
        vals = {}
        for f, idx in fields:
            kind_, v = arg_terms[idx]
            if kind_ == "nested":
                vals[f] = ref_of(1 + v, k)
            else:
                vals[f] = eng.unwrap(s, v, eng.field_type(cls, f))
        self._flow_assumptions(st, s, [k])
        r = z3.Int("br!")

        def write_block(c, blk, fvals):
            for f, term in fvals.items():
                ft = eng.field_type(c, f)
                owner = eng.field_owner(c, f)
                cur = st.fmap(owner, f, sort_of(ft))
                nm = st.fresh("bm_" + f, cur.sort())
                off = base + 1 + blk * nlen
                st.assume(FA([r], z3.Implies(z3.And(r >= off, r < off + nlen), z3.Select(nm, r) == z3.substitute(term, (k, r - off))),
                             patterns=[z3.Select(nm, r)]))
                st.assume(FA([r], z3.Implies(r <= base, z3.Select(nm, r) == z3.Select(cur, r)), patterns=[z3.Select(nm, r)]))
                st.heap[("F", owner, f)] = nm
        write_block(cls, 0, vals)
        for bi, (icls, ivals) in enumerate(nested):
            write_block(icls, 1 + bi, ivals)
        st.alloc = base + total_blocks * nlen
        na = st.fresh("alloc", z3.IntSort())
        st.assume(na == st.alloc)
        st.alloc = na
        res = eng.new_list(st, TObj(cls.name), nlen)
        dst = z3.Select(st.eltmap(z3.IntSort()), res.ref)
        st.assume(FA([k], z3.Implies(z3.And(k >= 0, k < nlen), z3.Select(dst, k) == ref_of(0, k)), patterns=[z3.Select(dst, k)]))
        eng.used_assumptions.add("comprehension over a constructor: one fresh object per element (consecutive references), "
                                 "fields set from the constructor arguments")
        return res

    def comp_safety(self, st, n, g, itv, arr, nlen, bind):
        """Evaluate conditions and element once on a generic element in normal (non-spec) mode so that
        exceptions raised inside the comprehension become outcomes of the enclosing statement."""
        eng = self.eng
        s = st.fork()
        k = s.fresh("ck", z3.IntSort())
        s.assume(z3.And(k >= 0, k < nlen))
        x = eng.wrap(s, z3.Select(arr, k), itv.elem)
        eng.assume_wf(s, x)
        s.decisions = []
        s.dpos = 0
        probe = ast.Expr(value=ast.IfExp(test=ast.BoolOp(op=ast.And(), values=list(g.ifs)) if len(g.ifs) > 1 else (g.ifs[0] if g.ifs else ast.Constant(value=True)),
                                         body=n.elt, orelse=ast.Constant(value=None)))
        ast.copy_location(probe, n)
        ast.fix_missing_locations(probe)
        saved_env = s.env
        s.env = dict(s.env)
        eng.assign(s, g.target, x, n)
        for s2, out in eng.run_stmt(probe, s):
            if out.kind == "raise" and not eng.is_dead(s2):
                # an element can make the comprehension raise: fork the caller onto that path
                c = eng.choose(st, 2)
                if c == 1:
                    for p in s2.pc[len(st.pc):]:
                        st.assume(p)
                    st.fresh_ctr = max(st.fresh_ctr, s2.fresh_ctr)
                    raise E.PyRaise(out.value, out.node)
                # otherwise: continue on the path where no element raises (assumed for all k below)
                bad = z3.And(s2.pc[len(st.pc):]) if len(s2.pc) > len(st.pc) else z3.BoolVal(True)
                kk = z3.Int("cq!")
                body = z3.substitute(bad, (k, kk))
                st.assume(FA([kk], z3.Not(body)))
        st.fresh_ctr = max(st.fresh_ctr, s.fresh_ctr)

    def comp_to_list(self, st, comp, node):
        """Characterise [map(x) for x in xs if pred(x)] as a fresh list via the prefix-count function."""
        eng = self.eng
        s = comp.state
        arr, n = comp.arr, comp.n
        k = z3.Int("fk!")
        x_k = eng.wrap(s, z3.Select(arr, k), comp.src_elem)
        mv = comp.map_fn(s, x_k)
        for p in s.pc[len(st.pc):]:
            pass
        if isinstance(mv, VCList):
            raise E.Unsupported("comprehension producing concrete lists", node)
        elem_t = mv.typ
        if isinstance(mv, VObj) and not self._is_pure_projection(mv):
            pass
        res_sort = sort_of(elem_t)
        if comp.pred_fn is None:
            res = eng.new_list(st, elem_t, n)
            dst = z3.Select(st.eltmap(res_sort), res.ref)
            mt = eng.unwrap(s, mv, elem_t)
            self._flow_assumptions(st, s, [k])
            st.assume(FA([k], z3.Implies(z3.And(k >= 0, k < n), z3.Select(dst, k) == mt),
                                patterns=[z3.Select(dst, k)]))
            st.ghost = dict(st.ghost)
            comps = dict(st.ghost.get("comps", {}))
            comps[str(res.ref)] = comp
            st.ghost["comps"] = comps
            return res
        cnt = self.count_sym_fn(st, comp)
        total = cnt(arr, n)
        mt0 = eng.unwrap(s, mv, elem_t)
        if mt0.eq(z3.Select(arr, k)):
            # identity map: the content is FILT_p(arr, n), a function of the source (so that two filters of
            # the same list by pointwise-equal predicates are the same term)
            return self.filter_list(st, comp, cnt, arr, n, elem_t)
        res = eng.new_list(st, elem_t, total)
        dst = z3.Select(st.eltmap(res_sort), res.ref)
        pt = comp.pred_fn(s, x_k)
        mt = eng.unwrap(s, mv, elem_t)
        self._flow_assumptions(st, s, [k])
        # element placement: the k-th source element, if kept, lands at index count(prefix k)
        st.assume(FA([k], z3.Implies(z3.And(k >= 0, k < n, pt), z3.Select(dst, cnt(arr, k)) == mt),
                            patterns=[cnt(arr, k)]))
        # every result element comes from a kept source element (skolem src index)
        st.fresh_ctr += 1
        srcf = z3.Function(f"src!{st.fresh_ctr}", z3.IntSort(), z3.IntSort())
        j = z3.Int("fj!")
        x_s = eng.wrap(s, z3.Select(arr, srcf(j)), comp.src_elem)
        pt_s = comp.pred_fn(s, x_s)
        mt_s = eng.unwrap(s, comp.map_fn(s, x_s), elem_t)
        self._flow_assumptions(st, s, [j])
        st.assume(FA([j], z3.Implies(z3.And(j >= 0, j < total),
                                            z3.And(srcf(j) >= 0, srcf(j) < n, pt_s, cnt(arr, srcf(j)) == j,
                                                   z3.Select(dst, j) == mt_s)),
                            patterns=[z3.Select(dst, j)]))
        a, b = z3.Int("fa!"), z3.Int("fb!")
        st.assume(FA([a, b], z3.Implies(z3.And(a >= 0, a < b, b < total), srcf(a) < srcf(b)),
                            patterns=[z3.MultiPattern(srcf(a), srcf(b))]))
        st.ghost = dict(st.ghost)
        comps = dict(st.ghost.get("comps", {}))
        comps[str(res.ref)] = comp
        st.ghost["comps"] = comps
        return res

    def _skeleton(self, ent):
        """Cheap filter before a link attempt: the multiset of literal constants of the predicate. Predicates that differ in
        their constants (cat(v) == 0 vs cat(v) == 1) are not tried (skipping an attempt only loses completeness)."""
        if "skel" in ent:
            return ent["skel"]
        consts = []
        seen = set()
        stack = [ent["t"]]
        while stack:
            t = stack.pop()
            if t.get_id() in seen:
                continue
            seen.add(t.get_id())
            if z3.is_quantifier(t):
                stack.append(t.body())
            elif z3.is_int_value(t) or z3.is_string_value(t) or z3.is_rational_value(t):
                consts.append(str(t))
            elif z3.is_app(t):
                for c_ in t.children():
                    # heap maps (and the values stored in them) are exactly what may differ between two versions
                    if c_.sort().kind() == z3.Z3_ARRAY_SORT and c_.sort().domain().kind() == z3.Z3_INT_SORT and \
                            not (z3.is_const(c_) and c_.decl().name().endswith("!") is False and False):
                        if z3.is_app(c_) and c_.decl().kind() in (z3.Z3_OP_STORE, z3.Z3_OP_UNINTERPRETED, z3.Z3_OP_SELECT):
                            if c_.decl().kind() == z3.Z3_OP_SELECT:
                                stack.append(c_)
                            continue
                    stack.append(c_)
        ent["skel"] = tuple(sorted(consts))
        return ent["skel"]

    def _src_map_of(self, st, arr):
        if z3.is_app(arr) and arr.decl().kind() == z3.Z3_OP_SELECT and z3.is_const(arr.arg(0)):
            return arr.arg(0)
        return None

    def link_equivalent_classes(self, st, ent, arr, n, src_elem=None):
        """Two predicates that agree on every element *under the current path condition* give the same count / sum /
        filtered list for this source (extensionality, trusted lemma schema); the equalities are assumed for (arr, n)."""
        eng = self.eng
        for other in self.sym_classes:
            if other is ent or other["kind"] != ent["kind"] or "fn" not in other or "fn" not in ent:
                continue
            if other["x"].sort() != ent["x"].sort() or other["t"].sort() != ent["t"].sort():
                continue
            # only predicates of the same shape up to the heap maps they read can differ merely by the heap version
            if self._skeleton(other) != self._skeleton(ent):
                continue
            key = (other["idx"], ent["idx"], arr.get_id(), n.get_id())
            done = st.ghost.get("linked", frozenset())
            if key in done:
                continue
            kq = z3.Int("lqk!")
            c = z3.Select(arr, kq)
            a = z3.substitute(other["t"], (other["x"], c))
            b = z3.substitute(ent["t"], (ent["x"], c))
            def attempt(full):
                s = z3.Solver()
                s.set("timeout", 6000 if full else 3000)
                for p in st.pc:
                    if full or not z3.is_quantifier(p):
                        s.add(p)
                for e_ in (other, ent):
                    for p in e_.get("side", []):
                        s.add(z3.substitute(p, (e_["x"], c)))
                s.add(kq >= 0, kq < n)
                if src_elem is not None:
                    s2 = st.fork()
                    v = eng.wrap(s2, c, src_elem)
                    eng.assume_wf(s2, v, self._src_map_of(st, arr))
                    for p in s2.pc[len(st.pc):]:
                        s.add(p)
                s.add(a != b)
                return s.check() == z3.unsat
            ok_ = attempt(False) or attempt(True)
            if os.environ.get('PYVC_DEBUG'):
                print('[link]', other['idx'], ent['idx'], ok_, str(a)[:120].replace(chr(10),' '), '|', str(b)[:120].replace(chr(10),' '), file=__import__('sys').stderr)
            if ok_:
                st.assume(other["fn"](arr, n) == ent["fn"](arr, n))
                if "filt" in other and "filt" in ent:
                    st.assume(other["filt"](arr, n) == ent["filt"](arr, n))
                eng.used_assumptions.add("lemma schema: predicates that agree on every element under the path condition give equal "
                                         "count/sum/filter results on the same list (extensionality)")
            st.ghost = dict(st.ghost)
            st.ghost["linked"] = done | {key}

    def filter_list(self, st, comp, cnt, arr, n, elem_t):
        eng = self.eng
        x, t = self._abstract(st, comp, "pred")
        ent = self._sum_entry(st, x, z3.simplify(z3.If(t, z3.IntVal(1), z3.IntVal(0))))
        asort = z3.ArraySort(z3.IntSort(), x.sort())
        if "filt" not in ent:
            F = z3.Function(f"FILT{ent['idx']}", asort, z3.IntSort(), asort)
            SRC = z3.Function(f"FSRC{ent['idx']}", asort, z3.IntSort(), z3.IntSort(), z3.IntSort())
            ent["filt"], ent["fsrc"] = F, SRC
            a = z3.Const("fa!", asort)
            nn, k, j, j2 = z3.Ints("fn! fk! fj! fj2!")
            f = ent["fn"]
            pk = z3.substitute(t, (x, z3.Select(a, k)))
            ax = eng.axioms
            keys = {F.name(), SRC.name()}
            # the k-th source element, if kept, lands at index count(prefix k)
            ax.append(FA([a, nn, k], z3.Implies(z3.And(k >= 0, k < nn, pk), z3.Select(F(a, nn), f(a, k)) == z3.Select(a, k)),
                         patterns=[z3.MultiPattern(F(a, nn), f(a, k))]), keys=keys)
            # every result element comes from a kept source element; sources are increasing
            ps = z3.substitute(t, (x, z3.Select(a, SRC(a, nn, j))))
            ax.append(FA([a, nn, j], z3.Implies(z3.And(j >= 0, j < f(a, nn)),
                                                z3.And(SRC(a, nn, j) >= 0, SRC(a, nn, j) < nn, ps, f(a, SRC(a, nn, j)) == j,
                                                       z3.Select(F(a, nn), j) == z3.Select(a, SRC(a, nn, j)))),
                         patterns=[z3.Select(F(a, nn), j)]), keys=keys)
            ax.append(FA([a, nn, j, j2], z3.Implies(z3.And(j >= 0, j < j2, j2 < f(a, nn)), SRC(a, nn, j) < SRC(a, nn, j2)),
                         patterns=[z3.MultiPattern(SRC(a, nn, j), SRC(a, nn, j2))]), keys=keys)
            eng.used_assumptions.add("lemma schema: a filtered list is the subsequence of kept elements (placement by prefix count, "
                                     "increasing source indices); characterises [x for x in xs if p(x)]")
        F = ent["filt"]
        self.link_equivalent_classes(st, ent, arr, n, comp.src_elem)
        total = cnt(arr, n)
        res = eng.new_list(st, elem_t, total)
        es = sort_of(elem_t)
        st.heap[("ELT", sort_name(es))] = E.SStore(st.eltmap(es), res.ref, F(arr, n))
        st.assume(total >= 0)
        st.assume(total <= n)
        st.ghost = dict(st.ghost)
        comps = dict(st.ghost.get("comps", {}))
        comps[str(res.ref)] = comp
        st.ghost["comps"] = comps
        return res

    def _is_pure_projection(self, v):
        return True

    def _flow_assumptions(self, st, s, bound_vars):
        """Facts assumed while evaluating under the comprehension state (len>=0, well-formedness of
        reads) mention the bound index; quantify them before adding to the caller's path."""
        new = s.pc[self._flow_mark(s, st):]
        for p in new:
            fv = [v for v in bound_vars if self._mentions(p, v)]
            if fv:
                st.assume(FA(fv, p))
            else:
                st.assume(p)
        s.ghost["flow_mark"] = len(s.pc)

    def _flow_mark(self, s, st):
        return s.ghost.get("flow_mark", len(st.pc) if len(st.pc) <= len(s.pc) else len(s.pc))

    def _mentions(self, term, var):
        return var.decl().name() in E.term_consts(term)

    # --- predicate symbol classes (extensionality: pointwise-equal predicates share one symbol)
    def _abstract(self, st, comp, which):
        """Return (expr(x) as z3 term builder over a fresh element const, elem const)."""
        eng = self.eng
        s = comp.state
        x = z3.Const("ax!", sort_of(comp.src_elem))
        xv = eng.wrap(s, x, comp.src_elem)
        mark = len(s.pc)
        if which == "pred":
            t = comp.pred_fn(s, xv) if comp.pred_fn is not None else z3.BoolVal(True)
        else:
            t = eng.as_int(comp.map_fn(s, xv)) if comp.map_fn is not None else x
        self._last_side = [p for p in s.pc[mark:] if "ax!" in E.term_consts(p)]
        del s.pc[mark:]
        return x, t

    def _class_symbol(self, st, kind, x, t, extra_sort=None):
        """Find or create the uninterpreted symbol for lambda x. t (up to proven pointwise equality)."""
        eng = self.eng
        for ent in self.sym_classes:
            if ent["kind"] != kind or ent["x"].sort() != x.sort() or ent["t"].sort() != t.sort():
                continue
            t2 = z3.substitute(ent["t"], (ent["x"], x))
            if t2.eq(t):
                return ent
            s = z3.Solver()
            s.set("rlimit", eng.rlimit_quick)
            s.add(t2 != t)
            if s.check() == z3.unsat:
                eng.used_assumptions.add("lemma schema: pointwise-equal predicates/keys give equal count/sum/filter results (extensionality)")
                return ent
        idx = len(self.sym_classes)
        ent = {"kind": kind, "x": x, "t": t, "idx": idx}
        self.sym_classes.append(ent)
        return ent

    def count_sym_fn(self, st, comp):
        """count_if is sum_if with the constant map 1: both share one symbol class (so that
        make_count_profile's sums and len([... if p]) are the same term)."""
        x, t = self._abstract(st, comp, "pred")
        ent = self._sum_entry(st, x, z3.simplify(z3.If(t, z3.IntVal(1), z3.IntVal(0))))
        if not ent.get("count_ax"):
            ent["count_ax"] = True
            f = ent["fn"]
            asort = z3.ArraySort(z3.IntSort(), x.sort())
            a = z3.Const("ca!", asort)
            n = z3.Int("cn!")
            self.eng.axioms.append(FA([a, n], z3.Implies(n >= 0, z3.And(f(a, n) >= 0, f(a, n) <= n)),
                                             patterns=[f(a, n)]), keys={f.name()})
            self.eng.used_assumptions.add("lemma schema: 0 <= count_if(xs[:n]) <= n (induction on n, not re-proved)")
        return ent["fn"]

    def _sum_entry(self, st, x, t):
        eng = self.eng
        ent = self._class_symbol(st, "sum", x, t)
        side = getattr(self, "_last_side", None)
        if side:
            # heap well-formedness facts about what the predicate reads from an element (used when linking classes)
            ent.setdefault("side", [])
            have = {p.get_id() for p in ent["side"]}
            ent["side"].extend([z3.substitute(p, (x, ent["x"])) for p in side if p.get_id() not in have][:20])
        self._last_side = None
        if "fn" not in ent:
            asort = z3.ArraySort(z3.IntSort(), x.sort())
            f = z3.Function(f"SUM{ent['idx']}", asort, z3.IntSort(), z3.IntSort())
            ent["fn"] = f
            a = z3.Const("sa!", asort)
            nn = z3.Int("sn!")
            body_t = z3.substitute(ent["t"], (ent["x"], z3.Select(a, nn)))
            eng.axioms.append(FA([a], f(a, 0) == 0), keys={f.name()})
            eng.axioms.append(FA([a, nn], z3.Implies(nn >= 0, f(a, nn + 1) == f(a, nn) + body_t),
                                        patterns=[f(a, nn + 1)]), keys={f.name()})
        return ent

    def sum_sym(self, st, arr, n, map_fn, pred_fn, src_elem, state=None):
        eng = self.eng
        s = state or st
        x = z3.Const("ax!", sort_of(src_elem))
        xv = eng.wrap(s, x, src_elem)
        mark = len(s.pc)
        t_map = eng.as_int(map_fn(s, xv)) if map_fn is not None else x
        t_pred = pred_fn(s, xv) if pred_fn is not None else z3.BoolVal(True)
        self._last_side = [p for p in s.pc[mark:] if "ax!" in E.term_consts(p)]
        del s.pc[mark:]
        ent = self._sum_entry(st, x, z3.simplify(z3.If(t_pred, t_map, 0)))
        self.link_equivalent_classes(st, ent, arr, n, src_elem)
        return ent["fn"](arr, n)

    def comp_first(self, st, comp, node):
        """next(genexpr): the mapped first element satisfying pred; StopIteration if none."""
        eng = self.eng
        s = comp.state
        arr, n = comp.arr, comp.n
        w = st.fresh("first", z3.IntSort())
        k = z3.Int("nk!")
        xk = eng.wrap(s, z3.Select(arr, k), comp.src_elem)
        pk = comp.pred_fn(s, xk) if comp.pred_fn is not None else z3.BoolVal(True)
        self._flow_assumptions(st, s, [k])
        exists = z3.Exists([k], z3.And(k >= 0, k < n, pk))
        eng.require(st, exists, "StopIteration", node, "next() on exhausted generator")
        xw = eng.wrap(s, z3.Select(arr, w), comp.src_elem)
        pw = comp.pred_fn(s, xw) if comp.pred_fn is not None else z3.BoolVal(True)
        st.assume(z3.And(w >= 0, w < n, pw))
        st.assume(FA([k], z3.Implies(z3.And(k >= 0, k < w), z3.Not(pk))))
        eng.assume_wf(st, xw)
        r = comp.map_fn(s, xw)
        self._flow_assumptions(st, s, [])
        return r

    # ------------------------------------------------------------------ spec builtins
    def call_spec(self, st, name, args, kwargs, node):
        m = getattr(self, "sp_" + name)
        return m(st, args, kwargs, node)

    def _lam(self, st, f, vals, node):
        return self.eng.call(st, f, vals, {}, node)

    def sp_forall(self, st, args, kwargs, node):
        # forall(lo, hi, lambda k: P)  or forall(lo, hi, lambda a, b: P) for pairs lo <= a < b < hi
        eng = self.eng
        lo, hi, f = args
        nparams = len(f.node.args.args)
        if z3.is_true(z3.simplify(eng.as_int(lo) >= eng.as_int(hi))):
            return VBool(True)      # empty range
        depth = st.ghost.get("qdepth", 0)
        st.ghost = dict(st.ghost)
        st.ghost["qdepth"] = depth + 1
        # bound variables are named by nesting depth: equal clauses give equal formulas (and are de-duplicated)
        qs = [z3.Int(f"qd{depth}_{i}!") for i in range(nparams)]
        mark = len(st.pc)
        try:
            body = eng.truthy(st, self._lam(st, f, [VInt(q) for q in qs], node))
        finally:
            st.ghost["qdepth"] = depth
        side = st.pc[mark:]
        del st.pc[mark:]
        if nparams == 1:
            rng = z3.And(qs[0] >= eng.as_int(lo), qs[0] < eng.as_int(hi))
        else:
            rng = z3.And(qs[0] >= eng.as_int(lo), qs[0] < qs[1], qs[1] < eng.as_int(hi))
        # side facts (len >= 0, well-formed reads) are heap facts about the elements in range
        pats = None
        for p in side:
            if any(self._mentions(p, q) for q in qs):
                st.assume(FA(qs, z3.Implies(rng, p)))
            else:
                st.assume(p)
        return VBool(FA(qs, z3.Implies(rng, body), patterns=pats))

    def _index_patterns(self, qs, terms):
        """Triggers for a quantified list property: the element reads xs[q] (Select(arr, q) with arr free of q)."""
        found = {q.get_id(): [] for q in qs}
        seen = set()
        stack = list(terms)
        qids = {q.get_id(): q for q in qs}
        while stack:
            x = stack.pop()
            if x.get_id() in seen:
                continue
            seen.add(x.get_id())
            if z3.is_quantifier(x):
                continue
            if z3.is_app(x):
                if x.decl().kind() == z3.Z3_OP_SELECT and x.arg(1).get_id() in qids:
                    names = E.term_consts(x.arg(0))
                    if not any(q.decl().name() in names for q in qs):
                        lst = found[x.arg(1).get_id()]
                        if len(lst) < 3 and not any(y.eq(x) for y in lst):
                            lst.append(x)
                stack.extend(x.children())
        if any(not v for v in found.values()):
            return None
        if len(qs) == 1:
            return list(found[qs[0].get_id()])
        import itertools
        return [z3.MultiPattern(*combo) for combo in itertools.islice(itertools.product(*[found[q.get_id()] for q in qs]), 4)]

    def sp_exists(self, st, args, kwargs, node):
        eng = self.eng
        lo, hi, f = args
        depth = st.ghost.get("qdepth", 0)
        st.ghost = dict(st.ghost)
        st.ghost["qdepth"] = depth + 1
        q = z3.Int(f"qe{depth}!")
        mark = len(st.pc)
        try:
            body = eng.truthy(st, self._lam(st, f, [VInt(q)], node))
        finally:
            st.ghost["qdepth"] = depth
        side = st.pc[mark:]
        del st.pc[mark:]
        for p in side:
            st.assume(FA([q], z3.Implies(z3.And(q >= eng.as_int(lo), q < eng.as_int(hi)), p)) if self._mentions(p, q) else p)
        return VBool(z3.Exists([q], z3.And(q >= eng.as_int(lo), q < eng.as_int(hi), body)))

    def sp_implies(self, st, args, kwargs, node):
        a, b = args
        return VBool(z3.Implies(self.eng.truthy(st, a), self.eng.truthy(st, b)))

    def sp_iff(self, st, args, kwargs, node):
        a, b = args
        return VBool(self.eng.truthy(st, a) == self.eng.truthy(st, b))

    def sp_ite(self, st, args, kwargs, node):
        c, a, b = args
        return self.eng.ite_values(st, [(self.eng.truthy(st, c), a), (z3.BoolVal(True), b)])

    def sp_is_none(self, st, args, kwargs, node):
        return VBool(self.eng.values_equal(st, args[0], VNone()))

    def sp_old(self, st, args, kwargs, node):
        raise E.Unsupported("old() must wrap an expression evaluated lazily (handled in ev_Call)", node)

    def sp_fresh(self, st, args, kwargs, node):
        v = args[0]
        old = st.ghost.get("old_state")
        if old is None or not isinstance(v, (VObj, VList, VDict)):
            raise E.Unsupported("fresh()", node)
        st.assume(v.ref <= st.alloc)
        if isinstance(v, VDict):
            # a freshly allocated dict owns a freshly allocated key list
            st.assume(z3.Select(st.dkeys(), v.ref) <= st.alloc)
            return VBool(z3.And(v.ref > old.alloc, z3.Select(st.dkeys(), v.ref) > old.alloc))
        return VBool(v.ref > old.alloc)

    def sp_count_if(self, st, args, kwargs, node):
        # count_if(xs, pred, n=None)
        eng = self.eng
        xs, pred = args[0], args[1]
        n = eng.as_int(args[2]) if len(args) > 2 else None
        xs = eng.coerce(st, xs, TList(xs.elem)) if isinstance(xs, VCList) else xs
        arr = eng.list_arr(st, xs)
        ln = eng.list_len(st, xs) if n is None else n
        comp = VComp(arr, ln, xs.elem, None, lambda s, x: eng.truthy(s, eng.call(s, pred, [x], {}, node)), st, node)
        return VInt(self.count_sym_fn(st, comp)(arr, ln))

    def sp_sum_if(self, st, args, kwargs, node):
        # sum_if(xs, f, pred, n=None)
        eng = self.eng
        xs, f, pred = args[0], args[1], args[2]
        n = eng.as_int(args[3]) if len(args) > 3 else None
        if isinstance(xs, VCList):
            xs = eng.materialize(st, xs)
        arr = eng.list_arr(st, xs)
        ln = eng.list_len(st, xs) if n is None else n
        mf = (lambda s, x: eng.call(s, f, [x], {}, node)) if not isinstance(f, VNone) else None
        pf = (lambda s, x: eng.truthy(s, eng.call(s, pred, [x], {}, node))) if not isinstance(pred, VNone) else None
        return VInt(self.sum_sym(st, arr, ln, mf, pf, xs.elem))

    def sp_same_list(self, st, args, kwargs, node):
        """same length and identical elements (object identity for references)"""
        eng = self.eng
        a, b = args
        if isinstance(a, VCList):
            a = eng.materialize(st, a)
        if isinstance(b, VCList):
            b = eng.materialize(st, b, a.elem)
        na, nb = eng.list_len(st, a), eng.list_len(st, b)
        aa, ab = eng.list_arr(st, a), eng.list_arr(st, b)
        if aa.eq(ab):
            return VBool(na == nb)
        k = z3.Int("sl!")
        return VBool(z3.And(na == nb, FA([k], z3.Implies(z3.And(k >= 0, k < na), z3.Select(aa, k) == z3.Select(ab, k)))))

    def sp_list_eq(self, st, args, kwargs, node):
        return VBool(self.list_eq(st, args[0], args[1]))

    def sp_fmt(self, st, args, kwargs, node):
        spec = args[0].concrete()
        return VStr(self.fmt_fn(spec)(self.eng.as_int(args[1])))

    def sp_strcat(self, st, args, kwargs, node):
        t = args[0].t
        for a in args[1:]:
            t = z3.Concat(t, a.t)
        return VStr(t)

    def sp_count_char(self, st, args, kwargs, node):
        """count_char(s, ch, n): occurrences of the one-character string ch in s[:n] (n defaults to len(s))."""
        sv, ch = args[0], args[1]
        n = self.eng.as_int(args[2]) if len(args) > 2 else z3.Length(sv.t)
        f = z3.Function("STRCNT", z3.StringSort(), z3.StringSort(), z3.IntSort(), z3.IntSort())
        if not getattr(self, "_strcnt_ax", False):
            self._strcnt_ax = True
            a, c = z3.String("sca!"), z3.String("scc!")
            k = z3.Int("sck!")
            ax = self.eng.axioms
            ax.append(FA([a, c], f(a, c, 0) == 0), keys={"STRCNT"})
            ax.append(FA([a, c, k], z3.Implies(k >= 0, f(a, c, k + 1) == f(a, c, k) + z3.If(char_at(a, k) == c, 1, 0)),
                         patterns=[f(a, c, k + 1)]), keys={"STRCNT"})
        return VInt(f(sv.t, ch.t, n))

    def sp_last_index_of(self, st, args, kwargs, node):
        from . import strsplit
        return VInt(strsplit.last_index(self, args[0].t, args[1].t))

    def sp_dict_separate(self, st, args, kwargs, node):
        a, b = args
        return VBool(z3.And(a.ref != b.ref, z3.Select(st.dkeys(), a.ref) != z3.Select(st.dkeys(), b.ref)))

    def sp_dict_values(self, st, args, kwargs, node):
        return self.dict_values_list(st, args[0])

    def sp_dict_keys(self, st, args, kwargs, node):
        return self.dict_keys_list(st, args[0])

    def sp_dict_get(self, st, args, kwargs, node):
        d, k = args[0], args[1]
        has = self.dict_has(st, d, k)
        v = self.dict_get_raw(st, d, k)
        return self.eng.ite_values(st, [(has, v), (z3.BoolVal(True), VNone())])

    def sp_has_key(self, st, args, kwargs, node):
        return VBool(self.dict_has(st, args[0], args[1]))

    def sp_typename(self, st, args, kwargs, node):
        v = args[0]
        if isinstance(v, VExc):
            return VStr(v.tname)
        if isinstance(v, VExt):
            return VStr(v.kind)
        if isinstance(v, VObj):
            return VStr(v.cls.name)
        return VStr(type(v).__name__)

    def _called(self, st, tr, name, node):
        for ev in tr:
            if isinstance(ev, LoopSegment):
                if name in getattr(ev, "calls", ()) or getattr(ev, "calls", None) is None:
                    raise E.Unsupported(f"called({name}) cannot be decided: possibly called inside a loop", node)
            elif ev.target == "call" and ev.method == name:
                return True
        return False

    def _call_events(self, st, tr, name, node):
        out = []
        for ev in tr:
            if isinstance(ev, LoopSegment):
                if getattr(ev, "calls", None) is None or name in ev.calls:
                    raise E.Unsupported(f"calls of {name} cannot be enumerated: possibly called inside a loop", node)
            elif ev.target == "call" and ev.method == name:
                out.append(ev)
        return out

    def sp_call_result(self, st, args, kwargs, node):
        evs = self._call_events(st, st.trace, args[0].concrete(), node)
        if not evs or evs[-1].result is None:
            raise SpecFalse("no such call")
        return evs[-1].result

    def sp_iter_call_result(self, st, args, kwargs, node):
        evs = self._call_events(st, st.ghost.get("iter_trace", []), args[0].concrete(), node)
        if not evs or evs[-1].result is None:
            raise SpecFalse("no such call")
        return evs[-1].result

    def sp_call_count(self, st, args, kwargs, node):
        return VInt(len(self._call_events(st, st.trace, args[0].concrete(), node)))

    def sp_iter_call_count(self, st, args, kwargs, node):
        return VInt(len(self._call_events(st, st.ghost.get("iter_trace", []), args[0].concrete(), node)))

    def sp_called(self, st, args, kwargs, node):
        return VBool(self._called(st, st.trace, args[0].concrete(), node))

    def sp_iter_called(self, st, args, kwargs, node):
        return VBool(self._called(st, st.ghost.get("iter_trace", []), args[0].concrete(), node))

    # ghost output trace: `trace_*` index all events; `out_*` index output events only (no call markers)
    def _outs(self, st):
        return [e for e in st.trace if isinstance(e, LoopSegment) or e.target != "call"]

    def sp_out_len(self, st, args, kwargs, node):
        return VInt(len(self._outs(st)))

    def sp_out_method(self, st, args, kwargs, node):
        outs = self._outs(st)
        t = z3.simplify(self.eng.as_int(args[0]))
        if z3.is_int_value(t):
            k = t.as_long()
            if k < 0:
                k += len(outs)
            if 0 <= k < len(outs) and isinstance(outs[k], LoopSegment):
                return VStr("<loop>")
            if not (0 <= k < len(outs)):
                return VStr("<none>")
        return VStr(self._tidx(st, args[0], outs, node).method)

    def sp_out_arg(self, st, args, kwargs, node):
        ev = self._tidx(st, args[0], self._outs(st), node)
        j = z3.simplify(self.eng.as_int(args[1])).as_long()
        if j >= len(ev.args):
            raise SpecFalse("trace event has fewer arguments")
        return ev.args[j]

    def sp_out_kw(self, st, args, kwargs, node):
        ev = self._tidx(st, args[0], self._outs(st), node)
        return ev.kwargs.get(args[1].concrete(), VNone())

    def _trace(self, st):
        return [e for e in st.trace if isinstance(e, LoopSegment) or e.target != "call"]

    def _tidx(self, st, a, tr, node):
        t = z3.simplify(self.eng.as_int(a))
        if not z3.is_int_value(t):
            raise E.Unsupported("symbolic trace index", node)
        k = t.as_long()
        if k < 0:
            k += len(tr)
        if not (0 <= k < len(tr)):
            raise SpecFalse(f"trace index {k} out of range ({len(tr)} events)")
        if isinstance(tr[k], LoopSegment):
            raise SpecFalse("trace index points into a loop segment")
        return tr[k]

    def sp_trace_len(self, st, args, kwargs, node):
        return VInt(len(self._trace(st)))

    def sp_trace_method(self, st, args, kwargs, node):
        return VStr(self._tidx(st, args[0], self._trace(st), node).method)

    def sp_trace_arg(self, st, args, kwargs, node):
        ev = self._tidx(st, args[0], self._trace(st), node)
        j = z3.simplify(self.eng.as_int(args[1])).as_long()
        if j >= len(ev.args):
            raise SpecFalse("trace event has fewer arguments")
        return ev.args[j]

    def sp_trace_kw(self, st, args, kwargs, node):
        ev = self._tidx(st, args[0], self._trace(st), node)
        nm = args[1].concrete()
        if nm not in ev.kwargs:
            return VNone()
        return ev.kwargs[nm]

    def sp_trace_target(self, st, args, kwargs, node):
        ev = self._tidx(st, args[0], self._trace(st), node)
        return ev.target if isinstance(ev.target, V) else VStr(str(ev.target))

    def _iter_outs(self, st):
        return [e for e in st.ghost.get("iter_trace", []) if isinstance(e, LoopSegment) or e.target != "call"]

    def sp_iter_trace_len(self, st, args, kwargs, node):
        return VInt(len(self._iter_outs(st)))

    def sp_iter_trace_method(self, st, args, kwargs, node):
        return VStr(self._tidx(st, args[0], self._iter_outs(st), node).method)

    def sp_iter_trace_arg(self, st, args, kwargs, node):
        ev = self._tidx(st, args[0], self._iter_outs(st), node)
        j = z3.simplify(self.eng.as_int(args[1])).as_long()
        if j >= len(ev.args):
            raise SpecFalse("trace event has fewer arguments")
        return ev.args[j]

    def sp_iter_trace_kw(self, st, args, kwargs, node):
        ev = self._tidx(st, args[0], self._iter_outs(st), node)
        nm = args[1].concrete()
        return ev.kwargs.get(nm, VNone())

    # ------------------------------------------------------------------ container methods
    def call_method(self, st, base, name, args, kwargs, node):
        eng = self.eng
        if isinstance(base, (VList, VCList)):
            return self.list_method(st, base, name, args, kwargs, node)
        if isinstance(base, VStr):
            return self.str_method(st, base, name, args, kwargs, node)
        if isinstance(base, (VDict, VCDict)):
            return self.dict_method(st, base, name, args, kwargs, node)
        if isinstance(base, E.VSet):
            return self.set_method(st, base, name, args, kwargs, node)
        if isinstance(base, VExt):
            return self.ext_method(st, base, name, args, kwargs, node)
        if isinstance(base, E.VOpaque):
            return self.opaque_method(st, base, name, args, kwargs, node)
        if isinstance(base, VTuple):
            raise E.Unsupported(f"tuple method {name}", node)
        raise E.Unsupported(f"method {name} on {base!r}", node)

    def list_method(self, st, l, name, args, kwargs, node):
        eng = self.eng
        if name == "append":
            eng.list_append(st, l, args[0], node)
            return VNone()
        if name == "extend":
            src = args[0]
            if isinstance(l, VCList):
                seq = concrete_sequence(eng, st, src)
                if seq is None:
                    raise E.Unsupported("extend concrete list with symbolic", node)
                st.cl[l.id] = st.cl[l.id] + tuple(seq)
                return VNone()
            if isinstance(src, VCList):
                for it in st.cl[src.id]:
                    eng.list_append(st, l, it, node)
                return VNone()
            if isinstance(src, VList):
                n, m = eng.list_len(st, l), eng.list_len(st, src)
                es = sort_of(l.elem)
                em = st.eltmap(es)
                old = z3.Select(em, l.ref)
                sarr = z3.Select(em, src.ref)
                new = st.fresh("ext", old.sort())
                k = z3.Int("xk!")
                st.assume(FA([k], z3.Implies(z3.And(k >= 0, k < n), z3.Select(new, k) == z3.Select(old, k)),
                                    patterns=[z3.Select(new, k)]))
                st.assume(FA([k], z3.Implies(z3.And(k >= 0, k < m), z3.Select(new, n + k) == z3.Select(sarr, k)),
                                    patterns=[z3.Select(sarr, k)]))
                st.assume(FA([k], z3.Implies(z3.And(k >= n, k < n + m), z3.Select(new, k) == z3.Select(sarr, k - n)),
                                    patterns=[z3.Select(new, k)]))
                st.heap[("ELT", sort_name(es))] = E.SStore(em, l.ref, new)
                st.heap[("LEN",)] = E.SStore(st.lenmap(), l.ref, n + m)
                ln = getattr(node, "lineno", 0)
                st.writes.append((("ELT", sort_name(es)), l.ref, ln))
                st.writes.append((("LEN",), l.ref, ln))
                return VNone()
            raise E.Unsupported("extend", node)
        if name == "pop":
            if isinstance(l, VCList):
                items = list(st.cl[l.id])
                if not items:
                    raise E.PyRaise(VExc("IndexError", (VStr("pop from empty list"),)), node)
                k = -1
                if args:
                    k = z3.simplify(args[0].t).as_long()
                v = items.pop(k)
                st.cl[l.id] = tuple(items)
                return v
            n = eng.list_len(st, l)
            eng.require(st, n > 0, "IndexError", node, "pop from empty list")
            es = sort_of(l.elem)
            ln = getattr(node, "lineno", 0)
            if not args:
                v = eng.list_get_raw(st, l, n - 1)
                st.heap[("LEN",)] = E.SStore(st.lenmap(), l.ref, n - 1)
                st.writes.append((("LEN",), l.ref, ln))
                return v
            i0 = z3.simplify(args[0].t)
            if z3.is_int_value(i0) and i0.as_long() == 0:
                v = eng.list_get_raw(st, l, z3.IntVal(0))
                em = st.eltmap(es)
                old = z3.Select(em, l.ref)
                new = st.fresh("pop", old.sort())
                k = z3.Int("pk!")
                st.assume(FA([k], z3.Implies(z3.And(k >= 0, k < n - 1), z3.Select(new, k) == z3.Select(old, k + 1)),
                                    patterns=[z3.Select(new, k)]))
                st.heap[("ELT", sort_name(es))] = E.SStore(em, l.ref, new)
                st.heap[("LEN",)] = E.SStore(st.lenmap(), l.ref, n - 1)
                st.writes.append((("ELT", sort_name(es)), l.ref, ln))
                st.writes.append((("LEN",), l.ref, ln))
                return v
            raise E.Unsupported("pop(i)", node)
        if name == "copy":
            if isinstance(l, VCList):
                return st.new_clist(st.cl[l.id], l.elem)
            return self.slice(st, l, None, None, None, node)
        if name == "reverse":
            if isinstance(l, VCList):
                st.cl[l.id] = tuple(reversed(st.cl[l.id]))
                return VNone()
            r = self.list_reversed_copy(st, l)
            es = sort_of(l.elem)
            em = st.eltmap(es)
            st.heap[("ELT", sort_name(es))] = E.SStore(em, l.ref, z3.Select(em, r.ref))
            st.writes.append((("ELT", sort_name(es)), l.ref, getattr(node, "lineno", 0)))
            return VNone()
        if name == "index":
            return self.list_index(st, l, args[0], node)
        raise E.Unsupported(f"list method {name}", node)

    def list_index(self, st, l, x, node):
        eng = self.eng
        if isinstance(l, VCList):
            l = eng.materialize(st, l)
        n = eng.list_len(st, l)
        k = z3.Int("ik!")
        s2 = st.fork()
        s2.spec_mode = 1
        eq_k = eng.values_equal(s2, eng.list_get_raw(s2, l, k), x, node)
        exists = z3.Exists([k], z3.And(k >= 0, k < n, eq_k))
        eng.require(st, exists, "ValueError", node, "list.index: not in list")
        w = st.fresh("idx", z3.IntSort())
        eq_w = eng.values_equal(s2, eng.list_get_raw(s2, l, w), x, node)
        st.assume(z3.And(w >= 0, w < n, eq_w))
        st.assume(FA([k], z3.Implies(z3.And(k >= 0, k < w), z3.Not(eq_k))))
        return VInt(w)

    def str_method(self, st, s, name, args, kwargs, node):
        from . import strings
        return strings.str_method(self, st, s, name, args, kwargs, node)

    # ------------------------------------------------------------------ dicts / sets / externals: see dicts.py / externals.py
    def dict_len(self, st, d):
        from . import dicts
        return dicts.dict_len(self, st, d)

    def dict_has(self, st, d, k):
        from . import dicts
        return dicts.dict_has(self, st, d, k)

    def dict_getitem(self, st, d, k, node):
        from . import dicts
        return dicts.dict_getitem(self, st, d, k, node)

    def dict_get_raw(self, st, d, k):
        from . import dicts
        return dicts.dict_get_raw(self, st, d, k)

    def dict_setitem(self, st, d, k, v, node):
        from . import dicts
        return dicts.dict_setitem(self, st, d, k, v, node)

    def dict_keys_list(self, st, d):
        from . import dicts
        return dicts.dict_keys_list(self, st, d)

    def dict_values_list(self, st, d):
        from . import dicts
        return dicts.dict_values_list(self, st, d)

    def dict_method(self, st, d, name, args, kwargs, node):
        from . import dicts
        return dicts.dict_method(self, st, d, name, args, kwargs, node)

    def dict_map_keys(self, d):
        from . import dicts
        return dicts.dict_map_keys(self, d)

    def havoc_dict(self, st, d, node):
        from . import dicts
        return dicts.havoc_dict(self, st, d, node)

    def new_set(self, st, elem):
        from . import dicts
        return dicts.new_set(self, st, elem)

    def new_set_from(self, st, items, node):
        from . import dicts
        return dicts.new_set_from(self, st, items, node)

    def set_from_iter(self, st, it, node):
        from . import dicts
        return dicts.set_from_iter(self, st, it, node)

    def set_has(self, st, s, x):
        from . import dicts
        return dicts.set_has(self, st, s, x)

    def set_len(self, st, s):
        from . import dicts
        return dicts.set_len(self, st, s)

    def set_method(self, st, s, name, args, kwargs, node):
        from . import dicts
        return dicts.set_method(self, st, s, name, args, kwargs, node)

    def comp_over_set(self, st, n, g, itv, kind):
        raise E.Unsupported("comprehension over set", n)

    def comp_over_range(self, st, n, g, itv, kind):
        from . import dicts
        return dicts.comp_over_range(self, st, n, g, itv, kind)

    def comp_over_enum(self, st, n, g, itv, kind):
        from . import dicts
        return dicts.comp_over_enum(self, st, n, g, itv, kind)

    # externals
    def external_value(self, st, dotted, node):
        from . import externals as X
        return X.external_value(self, st, dotted, node)

    def call_external(self, st, name, args, kwargs, node):
        from . import externals as X
        return X.call_external(self, st, name, args, kwargs, node)

    def call_external_obj(self, st, fv, args, kwargs, node):
        from . import externals as X
        return X.call_external_obj(self, st, fv, args, kwargs, node)

    def ext_method(self, st, base, name, args, kwargs, node):
        from . import externals as X
        return X.ext_method(self, st, base, name, args, kwargs, node)

    def ext_binop(self, st, op, a, b, node):
        from . import externals as X
        return X.ext_binop(self, st, op, a, b, node)

    def ext_subscript(self, st, base, idx, node):
        from . import externals as X
        return X.ext_subscript(self, st, base, idx, node)

    def ext_contains(self, st, c, x, node):
        from . import externals as X
        return X.ext_contains(self, st, c, x, node)

    def enter_context(self, st, cm, item, node):
        from . import externals as X
        return X.enter_context(self, st, cm, item, node)

    def call_type(self, st, name, args, kwargs, node):
        return VExc(name, args, kwargs)

    def call_with_dynamic_kwargs(self, st, fv, args, dv, node):
        from . import externals as X
        return X.call_with_dynamic_kwargs(self, st, fv, args, dv, node)

    def opaque_method(self, st, base, name, args, kwargs, node):
        from . import externals as X
        return X.opaque_method(self, st, base, name, args, kwargs, node)

    def opaque_subscript(self, st, base, idx, node):
        from . import externals as X
        return X.opaque_subscript(self, st, base, idx, node)


class SpecFalse(Exception):
    """A specification expression that is ill-formed on this path (e.g. refers to a missing output event)."""


class VComp(V):
    """Lazy comprehension/generator over a heap list: source array, length, map and predicate."""

    def __init__(self, arr, n, src_elem, map_fn, pred_fn, state, node):
        self.arr = arr
        self.n = n
        self.src_elem = src_elem
        self.map_fn = map_fn
        self.pred_fn = pred_fn
        self.state = state
        self.node = node


class VSuper(V):
    def __init__(self, selfv, cls):
        self.selfv = selfv
        self.cls = cls
