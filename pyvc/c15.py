"""C15 by deduction: for every shipped automaton (data produced by the real code), the real Pattern.consume is
executed symbolically from every DFA state with a symbolic token and symbolic predicate memory; an inductive invariant
over the nesting depths is found by Houdini; the obligation is that no path reaches `raise ValueError`.

Encoding notes (what of the real semantics is simplified, all stated in evidence):
* predicate_map is pre-populated with one copy per transition predicate (the real code creates the copy lazily by
  deepcopy on first use; a lazily created copy has the depth of the pristine DFA predicate, 0, which is the initiation
  value used here; that DFA predicates are never mutated is C06's frame obligation on consume).
"""
from __future__ import annotations

import json
import time

import z3

from .values import *
from .pytypes import *
from . import engine as E
from .engine import Obligation, SStore


CANDS = [("depth == 0", lambda d: d == 0), ("depth >= 0", lambda d: d >= 0), ("depth >= 1", lambda d: d >= 1)]


class Automaton:
    pass


def load_automata(driver):
    p = driver.run_runtime("dfa_dump.py", [], timeout=120)
    return json.loads(p.stdout)


def build_state(eng, A):
    """Concrete heap for automaton A plus a Pattern object with symbolic predicate memory and a symbolic token."""
    repo = eng.repo
    st = State()
    st.module = "codelimit.common.gsm.Pattern"
    st.ghost["fn_key"] = "codelimit.common.gsm.Pattern:Pattern.consume"
    dyn = {}
    nxt = [0]

    def new():
        nxt[0] += 1
        return nxt[0]

    state_ref = {sid: new() for sid in A["states"]}
    State_cls = repo.cls("State")
    for sid, r in state_ref.items():
        dyn[r] = State_cls
    pred_ref = {}

    def cls_of(cname):
        mod, nm = cname.split(":")
        return repo.modules[mod].classes[nm]

    def alloc_pred(pid, copy_of_top=None):
        r = new()
        dyn[r] = cls_of(A["preds"][pid]["cls"])
        return r

    # DFA predicates (pristine) and their per-pattern copies (whole sub-graphs are copied, as deepcopy does)
    top_preds = []
    for sid, sd in A["states"].items():
        for tr in sd["transitions"]:
            if str(tr["pred"]) not in top_preds:
                top_preds.append(str(tr["pred"]))

    def alloc_graph(pid, table):
        if pid in table:
            return table[pid]
        r = alloc_pred(pid)
        table[pid] = r
        for k, v in A["preds"][pid]["fields"].items():
            if isinstance(v, dict) and "$pred" in v:
                alloc_graph(str(v["$pred"]), table)
        return r

    pristine = {}
    for pid in top_preds:
        alloc_graph(pid, pristine)
    copies = {}      # top pid -> {pid -> ref}
    for pid in top_preds:
        copies[pid] = {}
        alloc_graph(pid, copies[pid])
    pattern_ref = new()
    dyn[pattern_ref] = repo.cls("Pattern")
    dfa_ref = new()
    dyn[dfa_ref] = repo.cls("DFA")
    st.ghost["dyn"] = dyn
    depth_vars = {}   # (top pid, pid) -> z3 Int (symbolic depth of the copy)

    def store_field(cls, field, ref, value_term, sort):
        owner = eng.field_owner(cls, field)
        m = st.fmap(owner, field, sort)
        st.heap[("F", owner, field)] = SStore(m, z3.IntVal(ref), value_term)

    def fill_pred(pid, ref, symbolic_key=None):
        cls = dyn[ref]
        for k, v in A["preds"][pid]["fields"].items():
            ft = eng.field_type(cls, k)
            if isinstance(v, dict) and "$pred" in v:
                continue
            if k == "depth" and symbolic_key is not None:
                d = z3.Int(f"depth_{symbolic_key[0][-4:]}_{symbolic_key[1][-4:]}")
                depth_vars[symbolic_key] = d
                store_field(cls, k, ref, d, z3.IntSort())
            elif k == "satisfied" and symbolic_key is not None:
                store_field(cls, k, ref, z3.Bool(f"sat_{symbolic_key[0][-4:]}_{symbolic_key[1][-4:]}"), z3.BoolSort())
            elif isinstance(v, bool):
                store_field(cls, k, ref, z3.BoolVal(v), z3.BoolSort())
            elif isinstance(v, int):
                store_field(cls, k, ref, z3.IntVal(v), z3.IntSort())
            elif isinstance(v, str):
                store_field(cls, k, ref, z3.StringVal(v), z3.StringSort())
            else:
                raise E.Unsupported(f"predicate field {k}={v!r}")

    def link_pred(pid, table):
        cls = dyn[table[pid]]
        for k, v in A["preds"][pid]["fields"].items():
            if isinstance(v, dict) and "$pred" in v:
                store_field(cls, k, table[pid], z3.IntVal(table[str(v["$pred"])]), z3.IntSort())

    for pid, ref in pristine.items():
        fill_pred(pid, ref)
        link_pred(pid, pristine)
    for top, table in copies.items():
        for pid, ref in table.items():
            fill_pred(pid, ref, (top, pid))
            link_pred(pid, table)
    # states: id, transition lists (heap lists of boxed tuples), epsilon lists (empty)
    ttuple = parse_type("tuple[Predicate,State]")
    mk = eng.tuple_mk(ttuple)
    for sid, sd in A["states"].items():
        r = state_ref[sid]
        store_field(State_cls, "id", r, z3.IntVal(sd["id"]), z3.IntSort())
        lref = new()
        arr = z3.K(z3.IntSort(), z3.IntVal(0))
        for k, tr in enumerate(sd["transitions"]):
            arr = z3.Store(arr, k, mk(z3.IntVal(pristine[str(tr["pred"])]), z3.IntVal(state_ref[str(tr["target"])])))
        st.heap[("ELT", "Int")] = SStore(st.eltmap(z3.IntSort()), z3.IntVal(lref), arr)
        st.heap[("LEN",)] = SStore(st.lenmap(), z3.IntVal(lref), z3.IntVal(len(sd["transitions"])))
        store_field(State_cls, "transition", r, z3.IntVal(lref), z3.IntSort())
        eref = new()
        st.heap[("LEN",)] = SStore(st.lenmap(), z3.IntVal(eref), z3.IntVal(0))
        store_field(State_cls, "epsilon_transitions", r, z3.IntVal(eref), z3.IntSort())
    # the Pattern: tokens list (symbolic content), predicate_map (id of pristine predicate -> copy)
    Pat = repo.cls("Pattern")
    tok_list = new()
    st.heap[("LEN",)] = SStore(st.lenmap(), z3.IntVal(tok_list), z3.Int("n_tokens"))
    st.assume(z3.Int("n_tokens") >= 0)
    store_field(Pat, "tokens", pattern_ref, z3.IntVal(tok_list), z3.IntSort())
    store_field(Pat, "automata", pattern_ref, z3.IntVal(dfa_ref), z3.IntSort())
    pm = new()
    keys = new()
    st.heap[("DKEYS",)] = SStore(st.dkeys(), z3.IntVal(pm), z3.IntVal(keys))
    has = z3.K(z3.IntSort(), z3.BoolVal(False))
    val = z3.K(z3.IntSort(), z3.IntVal(0))
    karr = z3.K(z3.IntSort(), z3.IntVal(0))
    for k, top in enumerate(top_preds):
        has = z3.Store(has, pristine[top], z3.BoolVal(True))
        val = z3.Store(val, pristine[top], z3.IntVal(copies[top][top]))
        karr = z3.Store(karr, k, z3.IntVal(pristine[top]))
    st.heap[("DHAS", "Int")] = SStore(st.dhas(z3.IntSort()), z3.IntVal(pm), has)
    st.heap[("DVAL", "Int", "Int")] = SStore(st.dval(z3.IntSort(), z3.IntSort()), z3.IntVal(pm), val)
    st.heap[("ELT", "Int")] = SStore(st.eltmap(z3.IntSort()), z3.IntVal(keys), karr)
    st.heap[("LEN",)] = SStore(st.lenmap(), z3.IntVal(keys), z3.IntVal(len(top_preds)))
    store_field(Pat, "predicate_map", pattern_ref, z3.IntVal(pm), z3.IntSort())
    # symbolic token
    tok_ref = new()
    loc_ref = new()
    Tok = repo.cls("Token")
    dyn[tok_ref] = Tok
    store_field(Tok, "token_type", tok_ref, z3.Int("tok_type"), z3.IntSort())
    store_field(Tok, "value", tok_ref, z3.String("tok_value"), z3.StringSort())
    store_field(Tok, "location", tok_ref, z3.IntVal(loc_ref), z3.IntSort())
    st.alloc = z3.IntVal(nxt[0])
    st.alloc0 = st.alloc
    info = {"state_ref": state_ref, "pattern_ref": pattern_ref, "tok_ref": tok_ref, "depth_vars": depth_vars, "copies": copies,
            "top_preds": top_preds}
    return st, info


def depth_after(eng, s, info):
    out = {}
    for (top, pid), d in info["depth_vars"].items():
        ref = info["copies"][top][pid]
        cls = s.ghost["dyn"][ref]
        m = s.fmap(eng.field_owner(cls, "depth"), "depth", z3.IntSort())
        out[(top, pid)] = z3.simplify(z3.Select(m, z3.IntVal(ref)))
    return out


def analyse_automaton(eng, A):
    """Returns (obligations, summary). Obligation names: C15:<lang>:<label>::<kind>..."""
    name = f"{A['language']}:{A['label']}"
    fn = eng.repo.func("codelimit.common.gsm.Pattern:Pattern.consume")
    eng.cur_fn = "codelimit.common.gsm.Pattern:Pattern.consume"
    eng.cur_contract = None
    eng.index_loops(fn.node)
    base, info = build_state(eng, A)
    Pat = eng.repo.cls("Pattern")
    Tok = eng.repo.cls("Token")
    steps = []   # (q, pc, kind, q', depths')
    for sid, qref in info["state_ref"].items():
        st = base.fork()
        owner = eng.field_owner(Pat, "state")
        st.heap[("F", owner, "state")] = SStore(st.fmap(owner, "state", z3.IntSort()), z3.IntVal(info["pattern_ref"]), z3.IntVal(qref))
        st.entry = st.fork()
        st.env = {"self": VObj(Pat, z3.IntVal(info["pattern_ref"])), "item": VObj(Tok, z3.IntVal(info["tok_ref"]))}
        npc = len(st.pc)
        for s, out in eng.run_block(fn.node.body, st):
            if eng.is_dead(s):
                continue
            pc = list(s.pc[npc:])
            if out.kind == "raise":
                steps.append((sid, pc, "raise:" + out.value.tname, None, None, getattr(out.node, "lineno", 0)))
            elif out.kind == "return":
                v = out.value
                if isinstance(v, VNone):
                    steps.append((sid, pc, "none", None, None, 0))
                else:
                    q2 = z3.simplify(v.ref)
                    if not z3.is_int_value(q2):
                        raise E.Unsupported("consume returned a symbolic state")
                    sid2 = [k for k, r in info["state_ref"].items() if r == q2.as_long()][0]
                    steps.append((sid, pc, "step", sid2, depth_after(eng, s, info), 0))
            else:
                raise E.Unsupported(f"outcome {out.kind}")
    # the heap of this analysis is concrete and there is one symbolic token: the quantified schemas about token types are
    # instantiated at the token-type terms that occur on the paths (quantifier-free queries: a failing one yields a model),
    # schemas about heap structure (dictionary key storage) are not needed and are left out (fewer assumptions: still sound)
    def _tok_terms(fs):
        out, seen, work = {}, set(), list(fs)
        while work:
            t = work.pop()
            if t.get_id() in seen:
                continue
            seen.add(t.get_id())
            if z3.is_app(t):
                if t.decl().name().startswith("tok_in_") and t.num_args() == 1 and not z3.is_var(t.arg(0)):
                    out[t.arg(0).get_id()] = t.arg(0)
                work.extend(t.children())
        return list(out.values())
    ground = _tok_terms([p for st_ in steps for p in st_[1]])
    axioms = []
    for a in eng.axioms:
        if z3.is_quantifier(a):
            if a.num_vars() == 1 and "tok_in_" in a.body().sexpr():
                for t in ground:
                    axioms.append(z3.substitute_vars(a.body(), t))
        else:
            axioms.append(a)
    dv = info["depth_vars"]
    # ---- Houdini
    cand = {(sid, key, ci) for sid in info["state_ref"] for key in dv for ci in range(len(CANDS))}
    start = str(A["start"])
    for (sid, key, ci) in list(cand):
        if sid == start and not z3.is_true(z3.simplify(CANDS[ci][1](z3.IntVal(0)))):
            cand.discard((sid, key, ci))

    def inv(sid, depths):
        cs = [CANDS[ci][1](depths[key]) for (s2, key, ci) in cand if s2 == sid]
        return z3.And(cs) if cs else z3.BoolVal(True)

    solver_time = 0.0
    queries = 0
    changed = True
    rounds = 0
    while changed:
        changed = False
        rounds += 1
        for (sid, pc, kind, sid2, depths2, _ln) in steps:
            if kind != "step":
                continue
            for (s2, key, ci) in [c for c in cand if c[0] == sid2]:
                s = z3.Solver()
                s.set("timeout", 20000)
                for a in axioms:
                    s.add(a)
                s.add(inv(sid, dv))
                for p in pc:
                    s.add(p)
                s.add(z3.Not(CANDS[ci][1](depths2[key])))
                t0 = time.time()
                r = s.check()
                solver_time += time.time() - t0
                queries += 1
                if r != z3.unsat:
                    cand.discard((s2, key, ci))
                    changed = True
    # ---- obligations with the final invariant
    obs = []
    inv_text = {sid: sorted(f"{CANDS[ci][0]} [{key[1][-4:]}]" for (s2, key, ci) in cand if s2 == sid) for sid in info["state_ref"]}
    for (sid, pc, kind, sid2, depths2, ln) in steps:
        if kind.startswith("raise:"):
            ob = Obligation(f"C15:{name}::no-ambiguity@state{A['states'][sid]['id']}", "codelimit.common.gsm.Pattern:Pattern.consume",
                            "safety", axioms + [inv(sid, dv)] + pc, z3.BoolVal(False), ln,
                            f"{kind[6:]} ('Multiple transitions found!') unreachable from state {A['states'][sid]['id']} under the invariant "
                            f"{inv_text[sid] or ['true']}")
            ob.info["automaton"] = name
            obs.append(ob)
        elif kind == "step":
            for (s2, key, ci) in [c for c in cand if c[0] == sid2]:
                obs.append(Obligation(f"C15:{name}::consecution:state{A['states'][sid]['id']}->state{A['states'][sid2]['id']}:{CANDS[ci][0]}",
                                      "codelimit.common.gsm.Pattern:Pattern.consume", "invariant-preserve",
                                      axioms + [inv(sid, dv)] + pc, CANDS[ci][1](depths2[key]), 0,
                                      f"invariant of state {A['states'][sid2]['id']} preserved: {CANDS[ci][0]}"))
    # a safety obligation per state even when no raise path was feasible syntactically (counts what was examined)
    summary = {"automaton": name, "states": len(A["states"]), "transitions": sum(len(s["transitions"]) for s in A["states"].values()),
               "paths": len(steps), "raise_paths": sum(1 for x in steps if x[2].startswith("raise:")), "houdini_rounds": rounds,
               "houdini_queries": queries, "houdini_seconds": round(solver_time, 2), "invariant": {str(A["states"][k]["id"]): v for k, v in inv_text.items()}}
    return obs, summary
