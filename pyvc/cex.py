"""From a failed obligation to concrete inputs of the real function.

The failing query is re-solved in-process with size bounds that grow until it is satisfiable again
(raw models of heap queries are useless as test inputs). When z3 answers `unknown` (quantified
axioms), its candidate model is still taken: the replay on the real code is the arbiter.
"""
from __future__ import annotations

import z3

from .values import *
from .pytypes import *
from . import engine as E


def _bounds(params, st, eng, size, big):
    cs = []
    for nm, v in params.items():
        cs.extend(_bound_value(v, st, eng, size, big, 2))
    return cs


def _bound_value(v, st, eng, size, big, depth):
    cs = []
    if isinstance(v, VInt):
        cs.append(z3.And(v.t >= -1, v.t <= big))
    elif isinstance(v, VStr):
        cs.append(z3.Length(v.t) <= size + 2)
    elif isinstance(v, VList) and depth > 0:
        n = z3.Select(st.lenmap(), v.ref)
        cs.append(n <= size)
        for k in range(size):
            try:
                el = eng.wrap(st, z3.Select(z3.Select(st.eltmap(sort_of(v.elem)), v.ref), k), v.elem)
            except Exception:
                break
            cs.extend(_bound_value(el, st, eng, size, big, depth - 1))
    elif isinstance(v, VObj) and depth > 0:
        for c in v.cls.mro():
            for f, ft in eng.reg.classes.get(c.name, {}).items():
                if f.startswith("@") or ft.kind in ("ext", "any", "dict"):
                    continue
                try:
                    m = st.fmap(eng.field_owner(v.cls, f), f, sort_of(ft))
                    fv = eng.wrap(st, z3.Select(m, v.ref), ft)
                except Exception:
                    continue
                cs.extend(_bound_value(fv, st, eng, size, big, depth - 1))
    elif isinstance(v, VTuple):
        for it in v.items:
            cs.extend(_bound_value(it, st, eng, size, big, depth))
    return cs


def _subterms_of_sort(terms, want):
    out, seen, stack = {}, set(), list(terms)
    while stack:
        x = stack.pop()
        i = x.get_id()
        if i in seen:
            continue
        seen.add(i)
        if z3.is_quantifier(x):
            continue
        if z3.is_app(x):
            srt = x.sort()
            if srt.kind() == z3.Z3_ARRAY_SORT and not _has_bound(x):
                out.setdefault(str(srt), {})[x.get_id()] = x
            stack.extend(x.children())
    return {k: list(v.values()) for k, v in out.items()}


def _has_bound(x):
    stack, seen = [x], set()
    while stack:
        y = stack.pop()
        if y.get_id() in seen:
            continue
        seen.add(y.get_id())
        if z3.is_var(y):
            return True
        if z3.is_app(y):
            stack.extend(y.children())
    return False


def ground(assumptions, goal, n_int):
    """Replace top-level universally quantified assumptions by their instances over 0..n_int (Int bound
    variables) and over the array terms occurring in the query (array bound variables)."""
    import itertools
    plain = [a for a in assumptions if not z3.is_quantifier(a)]
    quants = [a for a in assumptions if z3.is_quantifier(a) and a.is_forall()]
    other = [a for a in assumptions if z3.is_quantifier(a) and not a.is_forall()]
    arrays = _subterms_of_sort(plain + [goal], None)
    out = list(plain) + other
    for q in quants:
        doms = []
        ok = True
        for j in range(q.num_vars()):
            srt = q.var_sort(j)
            if srt.kind() == z3.Z3_INT_SORT:
                doms.append([z3.IntVal(v) for v in range(-1, n_int + 2)])
            elif srt.kind() == z3.Z3_ARRAY_SORT:
                doms.append(arrays.get(str(srt), [])[:6])
            else:
                ok = False
                break
        if not ok or any(len(d) == 0 for d in doms):
            continue
        total = 1
        for d in doms:
            total *= len(d)
        if total > 400:
            continue
        for combo in itertools.product(*doms):
            # z3 de Bruijn order: var 0 is the last bound variable
            out.append(z3.substitute_vars(q.body(), *reversed(combo)))
    return out


def candidate_models(eng, ob, params, entry: State, max_models=3):
    """Yield z3 models (possibly candidate models after `unknown`) for the negated obligation."""
    out = []
    has_q = any(z3.is_quantifier(a) for a in ob.assumptions)
    for size, big in ((1, 70), (2, 70), (3, 200), (4, 2000), (None, None)):
        s = z3.Solver()
        s.set("timeout", 8000)
        if has_q and size is not None:
            for a in ground(ob.assumptions, ob.goal, size + 1):
                s.add(a)
        else:
            for a in ob.assumptions:
                s.add(a)
        s.add(z3.Not(ob.goal))
        for c in _fdiv_defs(list(ob.assumptions) + [ob.goal]):
            s.add(c)
        if size is not None:
            e2 = entry.fork()
            for c in _bounds(params, e2, eng, size, big):
                s.add(c)
        r = s.check()
        if r == z3.unsat:
            continue
        try:
            m = s.model()
        except z3.Z3Exception:
            continue
        out.append((str(r), m))
        if len(out) >= max_models:
            break
    return out


class Extractor:
    def __init__(self, eng, model, entry: State):
        self.eng = eng
        self.m = model
        self.st = entry.fork()
        self.objs = {}

    def ev(self, t):
        return self.m.eval(t, model_completion=True)

    def value(self, v, depth=6):
        eng = self.eng
        if isinstance(v, VInt):
            return self.ev(v.t).as_long()
        if isinstance(v, VBool):
            return z3.is_true(self.ev(v.t))
        if isinstance(v, VStr):
            r = self.ev(v.t)
            return r.as_string() if z3.is_string_value(r) else ""
        if isinstance(v, VReal):
            r = self.ev(v.t)
            return float(r.as_fraction()) if hasattr(r, "as_fraction") else 0.0
        if isinstance(v, VNone):
            return None
        if isinstance(v, E.VOpt):
            return None if z3.is_true(self.ev(v.none)) else self.value(v.inner, depth)
        if isinstance(v, VTuple):
            return {"$tuple": [self.value(i, depth) for i in v.items]}
        if isinstance(v, VCList):
            return [self.value(i, depth) for i in self.st.cl[v.id]]
        if isinstance(v, E.VOpaque):
            return {"$opaque": self.ev(v.t).as_long()}
        if isinstance(v, VExt):
            return {"$ext": v.kind}
        if isinstance(v, VList):
            ref = self.ev(v.ref).as_long()
            if ref == 0 and v.nullable:
                return None
            key = ("list", ref, str(v.elem))
            if key in self.objs:
                return {"$ref": self.objs[key]}
            n = self.ev(z3.Select(self.st.lenmap(), v.ref)).as_long()
            n = max(0, min(n, 12))
            ident = len(self.objs) + 1
            self.objs[key] = ident
            items = []
            if depth > 0:
                for k in range(n):
                    el = eng.wrap(self.st, z3.Select(z3.Select(self.st.eltmap(sort_of(v.elem)), v.ref), k), v.elem)
                    items.append(self.value(el, depth - 1))
            return {"$list": items, "$id": ident}
        if isinstance(v, VObj):
            ref = self.ev(v.ref).as_long()
            if ref == 0 and v.nullable:
                return None
            key = ("obj", v.cls.key, ref)
            if key in self.objs:
                return {"$ref": self.objs[key]}
            ident = len(self.objs) + 1
            self.objs[key] = ident
            fields = {}
            if depth > 0:
                for c in v.cls.mro():
                    for f, ft in eng.reg.classes.get(c.name, {}).items():
                        if f.startswith("@") or ft.kind == "ext":
                            continue
                        m = self.st.fmap(eng.field_owner(v.cls, f), f, sort_of(ft))
                        fv = eng.wrap(self.st, z3.Select(m, v.ref), ft)
                        fields[f] = self.value(fv, depth - 1)
            return {"$class": f"{v.cls.module}:{v.cls.name}", "$id": ident, "fields": fields}
        if isinstance(v, VDict):
            ref = self.ev(v.ref).as_long()
            if ref == 0 and v.nullable:
                return None
            keys = self.eng.b.dict_keys_list(self.st, v)
            kl = self.value(keys, depth)
            items = []
            if isinstance(kl, dict) and "$list" in kl:
                n = len(kl["$list"])
                for k in range(n):
                    kv = eng.wrap(self.st, z3.Select(z3.Select(self.st.eltmap(sort_of(v.kt)), keys.ref), k), v.kt)
                    vv = self.eng.b.dict_get_raw(self.st, v, kv)
                    items.append([self.value(kv, depth - 1), self.value(vv, depth - 1)])
            return {"$dict": items}
        return {"$unsupported": repr(v)}


def extract_inputs(eng, model, params, entry):
    ex = Extractor(eng, model, entry)
    return {nm: ex.value(v) for nm, v in params.items() if not nm.startswith("$")}


def extract_stubs(eng, model, final_state, entry):
    """Return values of the modular calls made on the failing path, as the model chose them. The replay
    substitutes them for the callees whose contract is only an assumed summary (stated in the replay file)."""
    out = []
    if final_state is None:
        return out
    ex = Extractor(eng, model, final_state)
    for ev in final_state.trace:
        if isinstance(ev, LoopSegment):
            continue
        if ev.target == "call" and getattr(ev, "modular", False) and getattr(ev, "result", None) is not None:
            c = eng.reg.get(ev.key)
            if c is None or not c.assumed:
                continue
            try:
                out.append({"function": ev.key, "returns": ex.value(ev.result)})
            except Exception:
                pass
    return out


def _fdiv_defs(terms):
    """Defining equations fdiv(x,y)*y == x for every application in the query (counter-model search only)."""
    out, seen, stack = [], set(), list(terms)
    while stack:
        x = stack.pop()
        if x.get_id() in seen:
            continue
        seen.add(x.get_id())
        if z3.is_quantifier(x):
            continue
        if z3.is_app(x):
            if x.decl().name() == "fdiv" and x.num_args() == 2 and not _has_bound(x):
                out.append(z3.Implies(x.arg(1) != 0, x * z3.ToReal(x.arg(1)) == z3.ToReal(x.arg(0))))
            stack.extend(x.children())
    return out
