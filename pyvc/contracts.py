"""Sidecar contract registry.

A contract is keyed by 'module:qualname' of the real function in /repo. Clause texts are Python
expressions in the translatable subset; the same text is evaluated symbolically (proof) and by
CPython (replay / bounded stand-ins).
"""
from __future__ import annotations

from .pytypes import parse_type


class LoopSpec:
    def __init__(self, fingerprint=None, invariant=None, decreases=None, body_asserts=None, unroll=False):
        self.fingerprint = fingerprint
        self.invariant = _named(invariant)
        self.decreases = decreases
        self.body_asserts = _named(body_asserts)
        self.unroll = unroll


def _named(clauses):
    if clauses is None:
        return {}
    if isinstance(clauses, dict):
        return dict(clauses)
    return {f"c{i}": c for i, c in enumerate(clauses)}


class Contract:
    def __init__(self, key, params=None, returns=None, requires=None, ensures=None, modifies=None,
                 raises=None, loops=None, ghost=None, inline=False, pure=False, assumed=False,
                 ensures_raise=None, locals=None, note="", fresh_result=False, props=(), call_sites=None, hints=None, rt_trace=False, tolerate_unsupported=False, caller_ensures=None, callers_assume_no_raise=False, assume_absent=None):
        self.key = key
        self.params = {k: parse_type(v) for k, v in (params or {}).items()}
        self.returns = parse_type(returns) if returns is not None else None
        self.requires = _named(requires)
        self.ensures = _named(ensures)
        self.modifies = list(modifies or [])
        # raises: {ExcName: condition-clause or None}
        if isinstance(raises, (list, tuple)):
            raises = {r: None for r in raises}
        self.raises = dict(raises or {})
        self.ensures_raise = {k: _named(v) for k, v in (ensures_raise or {}).items()}
        self.loops = {k: (v if isinstance(v, LoopSpec) else LoopSpec(**v)) for k, v in (loops or {}).items()}
        self.ghost = ghost or {}
        self.inline = inline
        self.pure = pure
        self.assumed = assumed  # contract on something we do not verify (trusted)
        self.locals = {k: parse_type(v) for k, v in (locals or {}).items()}
        self.note = note
        self.fresh_result = fresh_result
        self.props = tuple(props)
        self.hints = _named(hints)
        self.tolerate_unsupported = tolerate_unsupported  # unsupported paths are dropped and reported, not fatal
        self.callers_assume_no_raise = callers_assume_no_raise  # the exceptions in `raises` are excluded by an assumption listed in evidence
        self.assume_absent = dict(assume_absent or {})  # {exception: reason}: assumed never to be raised by built-in operations here
        self.caller_ensures = caller_ensures  # names of the ensures clauses callers may assume (None = all)
        self.rt_trace = rt_trace  # output-trace clauses are comparable at run time (no printing callees)
        self.call_sites = {k: _named(v) for k, v in (call_sites or {}).items()}


class Registry:
    def __init__(self):
        self.contracts: dict[str, Contract] = {}
        self.classes: dict[str, dict] = {}  # class short name -> {field: type}
        self.inline: set[str] = set()

    def contract(self, key, **kw):
        c = Contract(key, **kw)
        self.contracts[key] = c
        return c

    def cls(self, name, fields):
        self.classes[name] = {k: parse_type(v) for k, v in fields.items()}

    def get(self, key):
        return self.contracts.get(key)
