"""Heap model of dict and set (trusted base: CPython dicts iterate in insertion order; sets in an
arbitrary order, modelled by an unconstrained order list)."""
from __future__ import annotations

import ast

import z3

from .values import *
from .pytypes import *
from . import engine as E


def _ks(d):
    return sort_of(d.kt)


def _vs(d):
    return sort_of(d.vt)


def dict_map_keys(B, d):
    return [("DHAS", sort_name(_ks(d))), ("DVAL", sort_name(_ks(d)), sort_name(_vs(d)))]


def dict_keys_list(B, st, d) -> VList:
    dk = st.dkeys()
    ref = z3.Select(dk, d.ref)
    l = VList(ref, d.kt)
    B.eng.assume_wf(st, l, dk, d.ref, keys=True)
    st.assume(z3.And(E.IS_KEYS(ref), E.KEYS_OWNER(ref) == d.ref))
    return l


def dict_len(B, st, d):
    return B.eng.list_len(st, dict_keys_list(B, st, d))


def key_term(B, st, d, k):
    return B.eng.unwrap(st, k, d.kt)


def dict_has(B, st, d, k):
    if st.ghost.get("dyn") and isinstance(d, VDict):
        return z3.simplify(z3.Select(z3.Select(st.dhas(_ks(d)), d.ref), key_term(B, st, d, k)))
    if isinstance(d, VCDict):
        if isinstance(k, VStr):
            return z3.Or([k.t == z3.StringVal(x) for x in d.items]) if d.items else z3.BoolVal(False)
        raise E.Unsupported("membership in concrete dict")
    if d.kt.kind == "str" and not isinstance(k, VStr):
        return z3.BoolVal(False)
    return z3.Select(z3.Select(st.dhas(_ks(d)), d.ref), key_term(B, st, d, k))


def dict_get_raw(B, st, d, k):
    dv = st.dval(_ks(d), _vs(d))
    term = z3.Select(z3.Select(dv, d.ref), key_term(B, st, d, k))
    if st.ghost.get("dyn"):
        term = z3.simplify(term)
    v = B.eng.wrap(st, term, d.vt)
    B.eng.assume_wf(st, v, dv if z3.is_const(dv) else None, d.ref)
    return v


def dict_getitem(B, st, d, k, node):
    if d.nullable:
        B.eng.require(st, d.ref != 0, "TypeError", node, "None[...]")
    B.eng.require(st, dict_has(B, st, d, k), "KeyError", node, "dict key")
    return dict_get_raw(B, st, d, k)


def dict_setitem(B, st, d, k, v, node):
    eng = B.eng
    kt = key_term(B, st, d, k)
    has = dict_has(B, st, d, k)
    hm = st.dhas(_ks(d))
    vm = st.dval(_ks(d), _vs(d))
    st.heap[("DHAS", sort_name(_ks(d)))] = E.SStore(hm, d.ref, z3.Store(z3.Select(hm, d.ref), kt, z3.BoolVal(True)))
    st.heap[("DVAL", sort_name(_ks(d)), sort_name(_vs(d)))] = E.SStore(vm, d.ref, z3.Store(z3.Select(vm, d.ref), kt, eng.unwrap(st, v, d.vt)))
    keys = dict_keys_list(B, st, d)
    n = eng.list_len(st, keys)
    es = _ks(d)
    em = st.eltmap(es)
    old = z3.Select(em, keys.ref)
    st.heap[("ELT", sort_name(es))] = E.SStore(em, keys.ref, z3.If(has, old, z3.Store(old, n, kt)))
    st.heap[("LEN",)] = E.SStore(st.lenmap(), keys.ref, z3.If(has, n, n + 1))
    ln = getattr(node, "lineno", 0)
    for key in dict_map_keys(B, d):
        st.writes.append((key, d.ref, ln))
    st.writes.append((("ELT", sort_name(es)), keys.ref, ln))
    st.writes.append((("LEN",), keys.ref, ln))


def new_dict(B, st, kt, vt) -> VDict:
    eng = B.eng
    ref = st.new_ref("dict")
    d = VDict(ref, kt, vt)
    keys = eng.new_list(st, kt, z3.IntVal(0), keys=True)
    st.assume(E.KEYS_OWNER(keys.ref) == ref)
    st.heap[("DKEYS",)] = E.SStore(st.dkeys(), ref, keys.ref)
    hm = st.dhas(_ks(d))
    st.heap[("DHAS", sort_name(_ks(d)))] = E.SStore(hm, ref, z3.K(_ks(d), z3.BoolVal(False)))
    return d


def dict_values_list(B, st, d) -> VList:
    eng = B.eng
    mkey = ("dvals", str(d.ref), tuple(sorted((str(k), v.get_id()) for k, v in st.heap.items()
                                              if k[0] in ("DKEYS", "DVAL", "LEN", "ELT", "DHAS"))))
    memo = st.ghost.get("dvals_memo", {})
    if mkey in memo:
        return memo[mkey]
    res = _dict_values_list(B, st, d)
    memo = dict(st.ghost.get("dvals_memo", {}))
    memo[mkey] = res
    mkey2 = ("dvals", str(d.ref), tuple(sorted((str(k), v.get_id()) for k, v in st.heap.items()
                                               if k[0] in ("DKEYS", "DVAL", "LEN", "ELT", "DHAS"))))
    memo[mkey2] = res
    st.ghost = dict(st.ghost)
    st.ghost["dvals_memo"] = memo
    return res


def _dict_values_list(B, st, d) -> VList:
    """d.values() as a list: its content is the array  k |-> val[keys[k]]  (a lambda term determined by the
    dict's maps, so that two views of an unchanged dict are the same term)."""
    eng = B.eng
    keys = dict_keys_list(B, st, d)
    n = eng.list_len(st, keys)
    res = eng.new_list(st, d.vt, n)
    k = z3.Int("dv!")
    karr = eng.list_arr(st, keys)
    varr = z3.simplify(z3.Select(st.dval(_ks(d), _vs(d)), d.ref))
    es = _vs(d)
    fn = z3.Function(f"DVALS_{sort_name(_ks(d))}_{sort_name(es)}", varr.sort(), karr.sort(), z3.ArraySort(z3.IntSort(), es))
    if not getattr(B, "_dvals_ax_" + fn.name(), False):
        setattr(B, "_dvals_ax_" + fn.name(), True)
        va, ka = z3.Const("dva!", varr.sort()), z3.Const("dka!", karr.sort())
        eng.axioms.append(FA([va, ka, k], z3.Select(fn(va, ka), k) == z3.Select(va, z3.Select(ka, k)),
                             patterns=[z3.Select(fn(va, ka), k)]), keys={fn.name()})
    st.heap[("ELT", sort_name(es))] = E.SStore(st.eltmap(es), res.ref, fn(varr, karr))
    return res


def dict_method(B, st, d, name, args, kwargs, node):
    eng = B.eng
    from .loops import VDictView, VCSeq
    if isinstance(d, VCDict):
        if name == "keys":
            return VCSeq([VStr(k) for k in d.items])
        if name == "values":
            return VCSeq(list(d.items.values()))
        if name == "items":
            return VCSeq([VTuple([VStr(k), v]) for k, v in d.items.items()])
        if name == "get":
            k = args[0].concrete() if isinstance(args[0], VStr) else None
            if k is None:
                raise E.Unsupported("symbolic get on concrete dict", node)
            return d.items.get(k, args[1] if len(args) > 1 else VNone())
        raise E.Unsupported(f"concrete dict method {name}", node)
    if name in ("keys", "values", "items"):
        return VDictView(d, name)
    if name == "get":
        has = dict_has(B, st, d, args[0])
        v = dict_get_raw(B, st, d, args[0])
        default = args[1] if len(args) > 1 else VNone()
        return eng.ite_values(st, [(has, v), (z3.BoolVal(True), default)])
    raise E.Unsupported(f"dict method {name}", node)


def havoc_dict(B, st, d, node):
    hm = st.dhas(_ks(d))
    vm = st.dval(_ks(d), _vs(d))
    st.heap[("DHAS", sort_name(_ks(d)))] = E.SStore(hm, d.ref, st.fresh("hv_dh", z3.ArraySort(_ks(d), z3.BoolSort())))
    st.heap[("DVAL", sort_name(_ks(d)), sort_name(_vs(d)))] = E.SStore(vm, d.ref, st.fresh("hv_dv", z3.ArraySort(_ks(d), _vs(d))))
    keys = dict_keys_list(B, st, d)
    es = _ks(d)
    st.heap[("LEN",)] = E.SStore(st.lenmap(), keys.ref, st.fresh("hv_len", z3.IntSort()))
    st.heap[("ELT", sort_name(es))] = E.SStore(st.eltmap(es), keys.ref, st.fresh("hv_elt", z3.ArraySort(z3.IntSort(), es)))
    ln = getattr(node, "lineno", 0)
    for key in dict_map_keys(B, d):
        st.writes.append((key, d.ref, ln))
    st.writes.append((("ELT", sort_name(es)), keys.ref, ln))
    st.writes.append((("LEN",), keys.ref, ln))


# ---------------------------------------------------------------- sets: membership map + arbitrary order list
def new_set(B, st, elem):
    raise E.Unsupported("sets (not yet modelled)")


def new_set_from(B, st, items, node):
    raise E.Unsupported("sets (not yet modelled)", node)


def set_from_iter(B, st, it, node):
    raise E.Unsupported("sets (not yet modelled)", node)


def set_has(B, st, s, x):
    raise E.Unsupported("sets (not yet modelled)")


def set_len(B, st, s):
    raise E.Unsupported("sets (not yet modelled)")


def set_method(B, st, s, name, args, kwargs, node):
    raise E.Unsupported("sets (not yet modelled)", node)


def comp_over_range(B, st, n, g, itv, kind):
    raise E.Unsupported("comprehension over symbolic range", n)


def comp_over_enum(B, st, n, g, itv, kind):
    raise E.Unsupported("comprehension over enumerate", n)
