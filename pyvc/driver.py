"""Check driver: property -> functions under contract -> obligations -> verdict + evidence."""
from __future__ import annotations

import importlib
import json
import os
import pkgutil
import subprocess
import sys
import time
import traceback

import z3

from .repo import Repo, REPO
from .contracts import Registry
from .engine import Engine, Obligation
from . import solve, cex

VERIF = os.path.dirname(os.path.dirname(os.path.abspath(__file__)))
VENV_PY = "/venv/bin/python"


def build_engine(repo_root=None):
    repo = Repo(repo_root)
    reg = Registry()
    import contracts.classes as cl
    cl.install(reg)
    import contracts
    for m in sorted(pkgutil.iter_modules(contracts.__path__), key=lambda m: m.name):
        if m.name.startswith("c_"):
            importlib.import_module("contracts." + m.name).install(reg)
    eng = Engine(repo, reg, open(os.path.join(VERIF, "contracts", "specs.py")).read())
    return eng


def runtime_env():
    env = dict(os.environ)
    env["PYTHONPATH"] = REPO + os.pathsep + VERIF
    env["LC_ALL"] = "C"
    env["PYTHONHASHSEED"] = env.get("PYTHONHASHSEED", "0")
    env["PYTHONDONTWRITEBYTECODE"] = "1"
    env.pop("CODELIMIT_VERIF", None)
    return env


def run_runtime(script, args, timeout=600, input_json=None):
    p = subprocess.run([VENV_PY, os.path.join(VERIF, "runtime", script)] + list(args), capture_output=True, text=True,
                       timeout=timeout, env=runtime_env(), cwd=VERIF,
                       input=json.dumps(input_json) if input_json is not None else None)
    return p


class Finding:
    def __init__(self, prop, name, what, replay_path=None, reproduced=False, detail=None, kind="obligation"):
        self.prop = prop
        self.name = name
        self.what = what
        self.replay_path = replay_path
        self.reproduced = reproduced
        self.detail = detail or {}
        self.kind = kind


def schema_drift(eng):
    """Cross-check declared field names against the class sources (a mismatch is drift, not an alarm)."""
    notes = []
    for cname, fields in eng.reg.classes.items():
        if cname.startswith("ext:"):
            continue
        try:
            ci = eng.repo.cls(cname)
        except KeyError:
            notes.append(f"class {cname} not found")
            continue
        actual = set()
        for c in ci.mro():
            actual |= set(c.init_fields())
        declared = {f for f in fields if not f.startswith("@")}
        own = set(ci.init_fields()) if not ci.is_dataclass else {f for f, _, _ in ci.dc_fields}
        extra = own - declared - {f for b in ci.mro()[1:] for f in eng.reg.classes.get(b.name, {})}
        missing = declared - actual
        if missing:
            notes.append(f"class {cname}: declared fields missing in source: {sorted(missing)}")
        if extra:
            notes.append(f"class {cname}: fields in source without declared type: {sorted(extra)}")
    return notes


def replay_candidate(eng, prop, ob, inputs, kind, extra=None):
    os.makedirs(os.path.join(VERIF, "replays", prop), exist_ok=True)
    safe = "".join(ch if ch.isalnum() or ch in "._-" else "_" for ch in ob.name.split("::", 1)[-1])[:80]
    fnkey = ob.fn
    path = os.path.join("replays", prop, f"{fnkey.split(':')[-1]}__{safe}.json")
    rp = {
        "property": prop, "function": fnkey, "obligation": ob.name, "kind": kind, "clause": ob.clause,
        "line": ob.line, "inputs": inputs, "solver": {"result": ob.result, "backend": ob.backend,
                                                       "reason": ob.info.get("reason", "")},
        "source_sha": eng.repo.func(fnkey).sha if eng.repo.has_func(fnkey) else None,
    }
    if extra:
        rp.update(extra)
    with open(os.path.join(VERIF, path), "w") as f:
        json.dump(rp, f, indent=1, default=str)
    try:
        p = run_runtime("replay.py", [os.path.join(VERIF, path)], timeout=120)
        res = json.loads(p.stdout.strip().splitlines()[-1]) if p.stdout.strip() else {"reproduced": False, "error": p.stderr[-800:]}
    except Exception as e:  # noqa
        res = {"reproduced": False, "error": repr(e)}
    rp["replay_result"] = res
    with open(os.path.join(VERIF, path), "w") as f:
        json.dump(rp, f, indent=1, default=str)
    return path, res


def triage(eng, prop, ob, ctx):
    """ob is not valid. Try to obtain a real failing input; returns Finding or None (undecided)."""
    reason = ob.info.get("reason", "")
    undecided = ob.result == "unknown" and not ("incomplete" in reason)
    penv, entry = ctx.get(ob.fn, (None, None))
    tried = 0
    last_path = None
    if penv is not None and ob.state is not None:
        kind = "safety" if ob.kind == "safety" else "postcondition"
        extra = {}
        if ob.kind == "safety":
            nm = ob.name.split("::", 1)[-1]
            if nm.startswith("no-raise:"):
                extra["expect_raise"] = nm[len("no-raise:"):].split("@")[0]
        if ob.kind in ("invariant-entry", "invariant-preserve", "precondition", "loop-body", "frame", "termination"):
            kind = "internal"
        if ob.kind == "call-site":
            kind = "call-site"
            callee = ob.name.split("::", 1)[-1].split(":")[1]
            extra["callee"] = callee
            for ev in ob.state.trace:
                pass
        try:
            models = cex.candidate_models(eng, ob, penv, entry)
        except Exception as e:  # noqa
            models = []
            ob.info["cex_error"] = repr(e)
        for r, m in models:
            try:
                inputs = cex.extract_inputs(eng, m, penv, entry)
                stubs = cex.extract_stubs(eng, m, ob.state, entry)
                extra = dict(extra)
                if stubs:
                    extra["stubs"] = stubs
                wrap = []
                if kind == "call-site":
                    for m_ in eng.repo.modules.values():
                        for f_ in list(m_.funcs.values()) + [mm for c_ in m_.classes.values() for mm in c_.methods.values()]:
                            if f_.qualname == extra.get("callee"):
                                wrap.append(f_.key)
                for ev in ob.state.trace:
                    if not isinstance(ev, cex.LoopSegment) and ev.target == "call" and getattr(ev, "key", None) \
                            and ev.method in (ob.clause or "") and ev.key not in wrap:
                        wrap.append(ev.key)
                if wrap:
                    extra["wrap"] = wrap
            except Exception as e:  # noqa
                ob.info["extract_error"] = repr(e)
                continue
            tried += 1
            if kind == "internal":
                # invariants/preconditions inside the function: replay checks the function's own contract
                c = eng.reg.get(ob.fn)
                reproduced = False
                for nm, text in (c.ensures.items() if c else []):
                    fake = Obligation(ob.name + "~" + nm, ob.fn, "postcondition", [], z3.BoolVal(True), ob.line, text)
                    fake.result, fake.backend, fake.info = ob.result, ob.backend, ob.info
                    path, res = replay_candidate(eng, prop, fake, inputs, "postcondition")
                    last_path = path
                    if res.get("reproduced"):
                        return Finding(prop, ob.name, f"{ob.clause} (via ensures {nm})", path, True, res)
                continue
            path, res = replay_candidate(eng, prop, ob, inputs, kind, extra)
            last_path = path
            if res.get("reproduced"):
                return Finding(prop, ob.name, ob.clause, path, True, res)
    if undecided:
        return None
    # the obligation fails but no model replays: report it, naming the obligation
    os.makedirs(os.path.join(VERIF, "replays", prop), exist_ok=True)
    if last_path is None:
        safe = "".join(ch if ch.isalnum() or ch in "._-" else "_" for ch in ob.name.split("::", 1)[-1])[:80]
        last_path = os.path.join("replays", prop, f"{ob.fn.split(':')[-1]}__{safe}.json")
        with open(os.path.join(VERIF, last_path), "w") as f:
            json.dump({"property": prop, "function": ob.fn, "obligation": ob.name, "clause": ob.clause, "line": ob.line,
                       "solver": {"result": ob.result, "backend": ob.backend, "reason": reason},
                       "note": "no-failing-input-found: the obligation failed; no counter-model could be replayed "
                               f"({tried} candidate models tried)"}, f, indent=1)
    return Finding(prop, ob.name, ob.clause, last_path, False, {"models_tried": tried})


def load_known():
    p = os.path.join(VERIF, "known_findings.json")
    if not os.path.exists(p):
        return {"known": [], "fixed": []}
    return json.load(open(p))


def match_known(known, finding: Finding):
    """A finding is known only if it is the recorded situation: same property, name pattern, and - for
    findings on generated inputs - the recorded feature tag and failure kind."""
    tags = set((finding.detail or {}).get("tags", []) or [])
    for k in known.get("known", []):
        if k["property"] != finding.prop:
            continue
        if k.get("obligation"):
            if k["obligation"] == finding.name:
                return k
            continue
        if k.get("match") and k["match"] in finding.name:
            if k.get("tag") and k["tag"] not in tags:
                continue
            if any(t not in tags for t in k.get("tags", [])):
                continue
            if k.get("kinds") and not any(finding.name.endswith(":" + kd) for kd in k["kinds"]):
                continue
            return k
    return None


def type_str(t):
    k = t.kind
    if k == "obj":
        return t.name
    if k == "ext":
        return "ext:" + t.name
    if k == "opt":
        return f"Optional[{type_str(t.args[0])}]"
    if k in ("list", "tuple", "dict", "set"):
        return f"{k}[{','.join(type_str(a) for a in t.args)}]"
    if k == "real":
        return "float"
    if k == "none":
        return "None"
    return k


def bounded_job(eng, key, budget, seed):
    import ast as _ast
    c = eng.reg.get(key)
    fn = eng.repo.func(key)
    a = fn.node.args
    names = [p.arg for p in a.posonlyargs + a.args + a.kwonlyargs]
    params = {}
    self_type = None
    anns = {p.arg: p.annotation for p in a.posonlyargs + a.args + a.kwonlyargs}
    from .pytypes import parse_type
    for nm in names:
        if nm == "self" and fn.cls is not None:
            self_type = fn.cls.name
            continue
        t = c.params.get(nm)
        if t is None and anns.get(nm) is not None:
            t = parse_type(_ast.unparse(anns[nm]))
        params[nm] = type_str(t) if t is not None else "any"
    ensures = {k: v for k, v in c.ensures.items() if "iter_" not in v and (c.rt_trace or not eng.mentions_trace(v))}
    wrap = []
    text = " ".join(ensures.values())
    for m_ in eng.repo.modules.values():
        for f_ in list(m_.funcs.values()) + [mm for c_ in m_.classes.values() for mm in c_.methods.values()]:
            if f"'{f_.qualname}'" in text or f'"{f_.qualname}"' in text:
                wrap.append(f_.key)
    classes = {name: {f: type_str(t) for f, t in fields.items()} for name, fields in eng.reg.classes.items()
               if not name.startswith("ext:")}
    return {"function": key, "params": params, "self_type": self_type, "requires": c.requires, "ensures": ensures,
            "wrap": wrap, "budget": budget, "seed": seed, "classes": classes, "raises": list(c.raises)}


def run_bounded(eng, pid, key, budget, seed, stubs=None):
    job = bounded_job(eng, key, budget, seed)
    if stubs:
        job["stubs"] = stubs
    try:
        p = run_runtime("bounded.py", [], timeout=600, input_json=job)
        res = json.loads(p.stdout.strip().splitlines()[-1]) if p.stdout.strip() else {"fault": p.stderr[-600:]}
    except Exception as e:  # noqa
        res = {"fault": repr(e)}
    out = {"name": f"contract-at-runtime:{key}", "kind": "bounded stand-in (same contract clauses evaluated by CPython on the real function)",
           "bound": f"{budget} inputs: boundary integers {{-1,0,1,2,14..17,29..32,59..62,100,1000}}, lists up to length 2 exhaustively "
                    f"over a small pool plus seeded random lists of length 3..6, objects built from the declared schema",
           "evaluations": res.get("evaluations", 0), "distinct_nontrivial": res.get("distinct_nontrivial", 0),
           "rule": "inputs enumerated per parameter type; distinct = distinct input tuples that satisfy the precondition",
           "samples": res.get("samples", []), "failures": []}
    if res.get("fault"):
        out["note"] = "harness could not run: " + res["fault"][-300:]
    for fl in res.get("failures", []):
        os.makedirs(os.path.join(VERIF, "replays", pid), exist_ok=True)
        safe = "".join(ch if ch.isalnum() or ch in "._-" else "_" for ch in fl["name"].split(":", 1)[-1])[:90]
        path = os.path.join("replays", pid, f"bounded__{safe}.json")
        with open(os.path.join(VERIF, path), "w") as f:
            json.dump({"property": pid, "function": key, "obligation": fl["name"], "clause": fl["what"], "kind": "bounded",
                       "inputs_described": fl.get("inputs"), "observed": fl.get("observed"),
                       "note": "failing input found by the bounded stand-in on the real function"}, f, indent=1, default=str)
        out["failures"].append({"name": fl["name"], "what": fl["what"], "replay": path, "inputs": fl.get("inputs")})
    return out


def run_harness(pid, script, args, name, bound, rule, timeout=1500):
    """Run a property-specific bounded stand-in (under /venv/bin/python on the real code) and write replay files."""
    try:
        p = run_runtime(script, args, timeout=timeout)
        res = json.loads(p.stdout.strip().splitlines()[-1]) if p.stdout.strip() else {"faults": [p.stderr[-800:]]}
    except Exception as e:  # noqa
        res = {"faults": [repr(e)]}
    out = {"name": name, "kind": "bounded stand-in", "bound": bound, "rule": rule, "evaluations": res.get("evaluations", 0),
           "distinct_nontrivial": res.get("distinct_nontrivial", 0), "samples": res.get("samples", [])[:3], "failures": []}
    if res.get("faults"):
        out["fault"] = str(res["faults"][0])[-600:]
    os.makedirs(os.path.join(VERIF, "replays", pid), exist_ok=True)
    seen = {}
    for fl in res.get("failures", []):
        key = (fl["name"], tuple(fl.get("tags", [])))
        seen[key] = seen.get(key, 0) + 1
        if seen[key] > 2:
            continue
        safe = "".join(ch if ch.isalnum() or ch in "._-" else "_" for ch in fl["name"])[:70] + f"_{len(out['failures'])}"
        path = os.path.join("replays", pid, f"{safe}.json")
        with open(os.path.join(VERIF, path), "w") as f:
            json.dump({"property": pid, "kind": "harness", "script": script, "obligation": fl["name"], "what": fl["what"],
                       "language": fl.get("language"), "text": fl.get("text"), "tags": fl.get("tags", []), "extra": fl.get("extra"),
                       "case": fl.get("case")}, f, indent=1, default=str)
        out["failures"].append({"name": fl["name"], "what": fl["what"], "replay": path, "tags": fl.get("tags", [])})
    return out
