"""pyvc: symbolic execution of the real AST of /repo functions into verification conditions.

Path-by-path execution with a decision log (re-execution on fork), a Boogie-style heap, modular
calls against sidecar contracts, loops cut at sidecar invariants, exceptions as outcomes.
"""
from __future__ import annotations

import ast
import os
import sys
import time
from fractions import Fraction

import z3

from .pytypes import *
from .values import *
from .repo import Repo, FuncInfo, ClassInfo
from .contracts import Registry, Contract, LoopSpec


def SStore(a, i, v):
    """Store with the same-index chain collapsed (Store(Store(a,i,x),i,y) == Store(a,i,y))."""
    while z3.is_app(a) and a.decl().kind() == z3.Z3_OP_STORE and a.arg(1).eq(i):
        a = a.arg(0)
    if z3.is_app(v) and v.decl().kind() == z3.Z3_OP_SELECT and v.arg(0).eq(a) and v.arg(1).eq(i):
        return a
    return z3.Store(a, i, v)


class NeedFork(Exception):
    def __init__(self, n):
        self.n = n


class PyRaise(Exception):
    def __init__(self, exc: VExc, node=None):
        self.exc = exc
        self.node = node


class Unsupported(Exception):
    def __init__(self, reason, node=None):
        super().__init__(reason)
        self.reason = reason
        self.node = node


class Drift(Unsupported):
    pass


class BudgetExceeded(Unsupported):
    pass


class GenericityViolation(Exception):
    """The code does something with a line number that is not available on an abstract ordered sort."""

    def __init__(self, reason, node=None):
        super().__init__(reason)
        self.reason = reason
        self.node = node


class Outcome:
    def __init__(self, kind, value=None, node=None):
        self.kind = kind
        self.value = value
        self.node = node

    def __repr__(self):
        return f"Outcome({self.kind},{self.value})"


NORMAL = Outcome("normal")
BREAK = Outcome("break")
CONTINUE = Outcome("continue")


# well-formedness of dictionaries: the key storage of a dictionary is an internal list that belongs to exactly
# that dictionary (KEYS_OWNER) and is never reachable as an ordinary list (IS_KEYS)
IS_KEYS = z3.Function("IS_KEYS", z3.IntSort(), z3.BoolSort())
KEYS_OWNER = z3.Function("KEYS_OWNER", z3.IntSort(), z3.IntSort())


class Obligation:
    def __init__(self, name, fn, kind, assumptions, goal, line=0, clause="", result=None, backend=None,
                 t=0.0, info=None):
        self.name = name
        self.fn = fn
        self.kind = kind
        self.assumptions = assumptions
        self.goal = goal
        self.line = line
        self.clause = clause
        self.result = result  # 'valid' | 'invalid' | 'unknown'
        self.backend = backend
        self.time = t
        self.info = info or {}
        self.model = None
        self.state = None

    def smt2(self, qf_only=False):
        s = z3.Solver()
        for a in self.assumptions:
            if qf_only and z3.is_quantifier(a):
                continue
            s.add(a)
        s.add(z3.Not(self.goal))
        return s.to_smt2()

    def has_quantified_assumptions(self):
        return any(z3.is_quantifier(a) for a in self.assumptions)


EXC_PARENTS = {
    "IndexError": ["LookupError", "Exception"],
    "KeyError": ["LookupError", "Exception"],
    "ValueError": ["Exception"],
    "UnicodeDecodeError": ["UnicodeError", "ValueError", "Exception"],
    "JSONDecodeError": ["ValueError", "Exception"],
    "TypeError": ["Exception"],
    "AttributeError": ["Exception"],
    "StopIteration": ["Exception"],
    "ZeroDivisionError": ["ArithmeticError", "Exception"],
    "ClassNotFound": ["ValueError", "Exception"],
    "Exit": ["RuntimeError", "Exception"],
    "RecursionError": ["RuntimeError", "Exception"],
    "OSError": ["Exception"],
    "FileNotFoundError": ["OSError", "Exception"],
    "AssertionError": ["Exception"],
    "NameError": ["Exception"],
    "Exception": [],
}


def exc_matches(tname, handler_names):
    names = [tname] + EXC_PARENTS.get(tname, ["Exception"])
    return any(h in names or h == "BaseException" for h in handler_names)


def term_consts(t, acc=None, seen=None):
    acc = set() if acc is None else acc
    seen = set() if seen is None else seen
    stack = [t]
    while stack:
        x = stack.pop()
        i = x.get_id()
        if i in seen:
            continue
        seen.add(i)
        if z3.is_const(x) and x.decl().kind() == z3.Z3_OP_UNINTERPRETED:
            acc.add(x.decl().name())
        elif z3.is_quantifier(x):
            stack.append(x.body())
        else:
            stack.extend(x.children())
    return acc


def term_funcs(terms, acc=None):
    """Names of uninterpreted function symbols (arity > 0) applied anywhere in the terms."""
    acc = set() if acc is None else acc
    seen = set()
    stack = list(terms)
    while stack:
        x = stack.pop()
        i = x.get_id()
        if i in seen:
            continue
        seen.add(i)
        if z3.is_quantifier(x):
            stack.append(x.body())
            continue
        if z3.is_app(x):
            d = x.decl()
            if d.kind() == z3.Z3_OP_UNINTERPRETED and x.num_args() > 0:
                acc.add(d.name())
            stack.extend(x.children())
    return acc


class AxiomSet(list):
    """Global lemma/axiom store. Each axiom is keyed by the symbols it defines; an obligation only
    receives the axioms in the cone of influence of its own terms."""

    def __init__(self):
        super().__init__()
        self.keys = []

    def append(self, ax, keys=None):
        super().append(ax)
        self.keys.append(set(keys) if keys is not None else term_funcs([ax]))

    def relevant(self, terms):
        used = term_funcs(terms)
        out = []
        changed = True
        picked = set()
        while changed:
            changed = False
            for i, (ax, ks) in enumerate(zip(self, self.keys)):
                if i in picked:
                    continue
                if ks & used:
                    picked.add(i)
                    out.append(ax)
                    new = term_funcs([ax]) - used
                    if new:
                        used |= new
                        changed = True
        return out


class Engine:
    def __init__(self, repo: Repo, reg: Registry, specs_src: str | None = None, rlimit_quick=3_000_000):
        self.repo = repo
        self.reg = reg
        self.obligations: list[Obligation] = []
        self.axioms = AxiomSet()
        self.rlimit_quick = rlimit_quick
        self.cur_fn = None
        self.cur_contract: Contract | None = None
        self.notes: list[str] = []
        self.used_assumptions: set[str] = set()
        self.pred_syms: list = []  # [(kind, argsorts, lambda-body-builder, symbol)]
        self.spec_funcs: dict[str, ast.FunctionDef] = {}
        self.quick_time = 0.0
        self.quick_calls = 0
        self.paths = 0
        self.loop_ids: dict = {}
        self.unverified_paths: list = []
        self.line_sort_hook = None
        if specs_src:
            tree = ast.parse(specs_src)
            for st in tree.body:
                if isinstance(st, ast.FunctionDef):
                    self.spec_funcs[st.name] = st
        from . import builtins as _b
        self.b = _b.Builtins(self)
        # dictionaries of the entry heap: their key storage is internal and belongs to exactly one dictionary
        dk = z3.Const("H_DKEYS", z3.ArraySort(z3.IntSort(), z3.IntSort()))
        x = z3.Int("dk!")
        self.axioms.append(FA([x], z3.And(IS_KEYS(z3.Select(dk, x)), KEYS_OWNER(z3.Select(dk, x)) == x),
                              patterns=[z3.Select(dk, x)]), keys={"IS_KEYS", "KEYS_OWNER"})

    # ------------------------------------------------------------------ solver helpers
    def quick_sat(self, assumptions, extra=None, full=False):
        """Feasibility query used for pruning. By default only the quantifier-free part of the path
        condition is used (a subset of the assumptions: `unsat` stays sound, we merely prune less; what
        is not pruned here becomes an obligation for the back ends with the complete path condition)."""
        t0 = time.time()
        if getattr(self, "gen_deadline", None) and t0 > self.gen_deadline and not getattr(self, "discharging", False):
            raise BudgetExceeded("generation budget exceeded (path explosion): verification conditions for this function "
                              "are not generated; the bounded stand-in takes over")
        terms = [a for a in assumptions if full or not z3.is_quantifier(a)]
        if extra is not None:
            terms.append(extra)
        key = None
        s = z3.Solver()
        s.set("rlimit", self.rlimit_quick)
        s.set("timeout", 600 if full else 4000)
        if full:
            for a in self.axioms.relevant(terms):
                s.add(a)
        for a in terms:
            s.add(a)
        if os.environ.get("PYVC_DUMPQ"):
            open(os.environ["PYVC_DUMPQ"], "w").write(s.to_smt2())
        if full:
            # quantifiers + strings: z3's sequence solver does not always honour its timeout in-process, so this
            # query runs in a child process that can be killed (an `unknown` only means "not pruned")
            text = s.to_smt2()
            memo = self.__dict__.setdefault("_ext_memo", {})
            if text not in memo:
                memo[text] = self._external_check(text)
            r = memo[text]
        else:
            r = s.check()
        dt = time.time() - t0
        self.quick_time += dt
        self.quick_calls += 1
        if dt > 1.0 and os.environ.get("PYVC_DEBUG"):
            print(f"[slow quick_sat {dt:.1f}s -> {r}] extra={str(extra)[:200]} npc={len(assumptions)}", file=sys.stderr)
        return str(r)

    def _external_check(self, smt2, seconds=2):
        import subprocess
        try:
            p = subprocess.run(["/usr/bin/z3", f"-T:{seconds}", "-in"], input=smt2, capture_output=True, text=True,
                               timeout=seconds + 3)
            out = p.stdout.strip().splitlines()
            return out[0] if out and out[0] in ("sat", "unsat") else "unknown"
        except Exception:
            return "unknown"

    def add_obligation(self, st: State, name, kind, goal, node=None, clause="", extra_assumptions=()):
        line = getattr(node, "lineno", 0) if node is not None else 0
        local = list(st.pc) + list(extra_assumptions)
        ob = Obligation(f"{self.cur_fn}::{name}", self.cur_fn, kind, self.axioms.relevant(local + [goal]) + local,
                        goal, line, clause)
        ob.state = st
        self.obligations.append(ob)
        return ob

    # ------------------------------------------------------------------ decisions
    def choose(self, st: State, n):
        if st.dpos < len(st.decisions):
            c = st.decisions[st.dpos]
            st.dpos += 1
            return c
        raise NeedFork(n)

    def decide(self, st: State, cond, label=None, node=None):
        """Return True/False for a z3 Bool condition, forking when both sides are feasible."""
        cond = z3.simplify(cond)
        if z3.is_true(cond):
            return True
        if z3.is_false(cond):
            return False
        if st.spec_mode:
            raise Unsupported("branch in spec mode")
        rt = self.quick_sat(st.pc, cond)
        rf = self.quick_sat(st.pc, z3.Not(cond))
        if rt == "unsat" and rf == "unsat":
            # infeasible path altogether
            st.assume(z3.BoolVal(False))
            raise DeadPath()
        if rf == "unsat":
            return True
        if rt == "unsat":
            return False
        c = self.choose(st, 2)
        if c == 0:
            st.assume(cond)
            return True
        st.assume(z3.Not(cond))
        return False

    def require(self, st: State, ok, exc_name, node, what=""):
        """Safety obligation: `ok` must hold, else exception exc_name is raised at node."""
        if st.spec_mode:
            return
        ok = z3.simplify(ok)
        if z3.is_true(ok):
            return
        cc = self.cur_contract
        if cc is not None and exc_name in cc.assume_absent and st.call_depth == 0:
            self.used_assumptions.add(f"assumed: no {exc_name} from built-in operations in {self.cur_fn} ({cc.assume_absent[exc_name]})")
            st.assume(ok)
            return
        line = getattr(node, "lineno", 0)
        rf = "sat" if z3.is_false(ok) else self.quick_sat(st.pc, z3.Not(ok))
        if rf != "unsat" and not z3.is_false(ok) and any(z3.is_quantifier(a) for a in st.pc):
            rf = self.quick_sat(st.pc, z3.Not(ok), full=True)
        if rf == "unsat":
            ob = Obligation(f"{self.cur_fn}::safety:{exc_name}@{line}:{what}", self.cur_fn, "safety", [], z3.BoolVal(True),
                            line, what, result="valid", backend="z3-inline")
            self._inline_discharged(ob)
            return
        rt = self.quick_sat(st.pc, ok)
        if rt == "unsat":
            st.assume(z3.Not(ok))
            raise PyRaise(VExc(exc_name, (VStr(what),)), node)
        c = self.choose(st, 2)
        if c == 0:
            st.assume(ok)
            return
        st.assume(z3.Not(ok))
        raise PyRaise(VExc(exc_name, (VStr(what),)), node)

    def _inline_discharged(self, ob):
        # de-duplicate by name (re-execution visits the same point several times)
        key = ob.name
        if key in self._inline_seen:
            return
        self._inline_seen.add(key)
        self.obligations.append(ob)

    _inline_seen: set = set()

    # ------------------------------------------------------------------ types / classes
    def resolve_type(self, t: T, module=None) -> T:
        return t

    def class_of_type(self, t: T) -> ClassInfo | None:
        if t.kind == "obj":
            try:
                return self.repo.cls(self.reg.class_alias.get(t.name, t.name) if hasattr(self.reg, "class_alias") else t.name)
            except KeyError:
                return None
        return None

    def field_type(self, cls: ClassInfo, field) -> T:
        for c in cls.mro():
            ft = self.reg.classes.get(c.name, {}).get(field)
            if ft is not None:
                return ft
            if c.is_dataclass:
                for f, ann, _ in c.dc_fields:
                    if f == field:
                        return parse_type(ast.unparse(ann))
        return TAny

    def field_owner(self, cls: ClassInfo, field) -> str:
        """Heap maps are keyed by the most general class declaring the field."""
        owner = cls
        for c in cls.mro():
            if field in self.reg.classes.get(c.name, {}) or field in c.init_fields():
                owner = c
        return owner.key

    def wrap(self, st: State, term, t: T, nullable=False) -> V:
        k = t.kind
        if k == "int":
            return VInt(term)
        if k == "bool":
            return VBool(term)
        if k == "str":
            return VStr(term)
        if k == "real":
            return VReal(term)
        if k == "none":
            return VNone()
        if k == "opt":
            if scalar_opt(t):
                raise Unsupported("optional scalar read without its presence flag")
            return self.wrap(st, term, t.args[0], nullable=True)
        if k == "obj":
            ci = self.class_of_type(t)
            if ci is None:
                return VOpaque(term, t)
            return VObj(ci, term, nullable)
        if k == "list":
            return VList(term, t.args[0], nullable)
        if k == "dict":
            return VDict(term, t.args[0], t.args[1], nullable)
        if k == "set":
            return VSet(term, t.args[0])
        if k == "ext":
            return st.new_ext(t.name, {"$term": term})
        if k == "tuple":
            items = []
            tt = z3.simplify(term) if z3.is_app(term) else term
            if z3.is_app(tt) and tt.decl().name() == self.tuple_fn_names(t) + "_mk" and tt.num_args() == len(t.args):
                return VTuple([self.wrap(st, tt.arg(i), et) for i, et in enumerate(t.args)])
            for i, et in enumerate(t.args):
                f = self.tuple_proj(t, i)
                items.append(self.wrap(st, f(term), et))
            return VTuple(items)
        return VOpaque(term, t)

    def tuple_fn_names(self, t: T):
        return "tup_" + "_".join(sort_name(sort_of(a)) for a in t.args)

    def tuple_proj(self, t: T, i):
        return z3.Function(f"{self.tuple_fn_names(t)}_p{i}", z3.IntSort(), sort_of(t.args[i]))

    def tuple_mk(self, t: T):
        return z3.Function(f"{self.tuple_fn_names(t)}_mk", *[sort_of(a) for a in t.args], z3.IntSort())

    def unwrap(self, st: State, v: V, t: T | None = None):
        """Encode a value as a z3 term of the heap sort for type t."""
        if isinstance(v, (VInt, VBool, VStr, VReal)):
            if t is not None and t.kind == "real" and isinstance(v, VInt):
                return z3.ToReal(v.t)
            return v.t
        if isinstance(v, VNone):
            return z3.IntVal(0)
        if isinstance(v, (VObj, VList, VDict, VSet)):
            return v.ref
        if isinstance(v, VOpaque):
            return v.t
        if isinstance(v, VCList):
            return self.materialize(st, v, t.args[0] if t is not None and t.kind == "list" else None).ref
        if isinstance(v, VTuple):
            tt = v.typ if (t is None or t.kind != "tuple") else t
            terms = [self.unwrap(st, it, tt.args[i]) for i, it in enumerate(v.items)]
            ref = self.tuple_mk(tt)(*terms)
            for i, tm in enumerate(terms):
                st.assume(self.tuple_proj(tt, i)(ref) == tm)
            return ref
        if isinstance(v, VExt):
            return self.ext_term(st, v)
        if isinstance(v, VCDict) and not v.items and t is not None and t.kind == "dict":
            from . import dicts
            return dicts.new_dict(self.b, st, t.args[0], t.args[1]).ref
        raise Unsupported(f"cannot store value {v!r} in the heap")

    def ext_term(self, st, v):
        a = st.ext_attrs(v)
        if "$term" in a:
            return a["$term"]
        return z3.IntVal(1_000_000 + v.ident)

    def fresh_value(self, st: State, t: T, prefix="v", allocated=True) -> V:
        k = t.kind
        if k == "tuple":
            return VTuple([self.fresh_value(st, a, prefix) for a in t.args])
        if k == "none":
            return VNone()
        if k == "ext":
            return st.new_ext(t.name, {})
        if scalar_opt(t):
            return VOpt(st.fresh(prefix + "_isnone", z3.BoolSort()), self.fresh_value(st, t.args[0], prefix))
        term = st.fresh(prefix, sort_of(t))
        v = self.wrap(st, term, t)
        if isinstance(v, (VObj, VList, VDict, VSet)):
            lo = 0 if getattr(v, "nullable", False) else 1
            st.assume(z3.And(term >= lo, term <= st.alloc))
        if isinstance(v, VList):
            st.assume(z3.Not(IS_KEYS(term)))
        return v

    def type_of_value(self, v: V) -> T:
        if isinstance(v, VCList):
            items = None
            return TList(v.elem)
        return v.typ

    # ------------------------------------------------------------------ heap access
    def get_field(self, st: State, obj: VObj, field, node=None) -> V:
        ft = self.field_type(obj.cls, field)
        if scalar_opt(ft):
            owner = self.field_owner(obj.cls, field)
            mv = st.fmap(owner, field, sort_of(ft.args[0]))
            mn = st.fmap(owner, field + "?", z3.BoolSort())
            return VOpt(z3.Select(mn, obj.ref), self.wrap(st, z3.Select(mv, obj.ref), ft.args[0]))
        m = st.fmap(self.field_owner(obj.cls, field), field, sort_of(ft))
        term = z3.Select(m, obj.ref)
        if st.ghost.get("dyn") and z3.is_int_value(z3.simplify(obj.ref)):
            term = z3.simplify(term)
        v = self.wrap(st, term, ft)
        self.assume_wf(st, v, m, obj.ref)
        if self.line_sort_hook:
            v = self.line_sort_hook(obj, field, v)
        return v

    def assume_wf(self, st: State, v: V, src_map=None, holder=None, keys=False):
        """Heap well-formedness: a reference read from the heap denotes an allocated object. When it is
        read from a map that is still the function-entry map (possibly under a few Stores), it is either
        one of the stored values or was allocated before the function started (<= alloc0)."""
        if isinstance(v, (VObj, VList, VDict, VSet)):
            lo = 0 if getattr(v, "nullable", False) else 1
            st.assume(z3.And(v.ref >= lo, v.ref <= st.alloc))
            if isinstance(v, VList) and not keys:
                # the key storage of a dictionary is never a program-visible list
                st.assume(z3.Not(IS_KEYS(v.ref)))
            if src_map is not None and st.alloc0 is not None:
                stored = []
                m = src_map
                depth = 0
                while z3.is_app(m) and m.decl().kind() == z3.Z3_OP_STORE and depth < 8:
                    stored.append((m.arg(1), m.arg(2)))
                    m = m.arg(0)
                    depth += 1
                if z3.is_const(m) and m.decl().kind() == z3.Z3_OP_UNINTERPRETED and m.decl().name().startswith("H_") \
                        and all(x.sort() == v.ref.sort() for _i, x in stored):
                    # either an entry value, or the value stored at this very slot
                    alts = [v.ref <= st.alloc0]
                    for idx, x in stored:
                        if holder is not None and idx.sort() == holder.sort():
                            alts.append(z3.And(holder == idx, v.ref == x))
                        else:
                            alts.append(v.ref == x)
                    fact = z3.Or(alts)
                    # only objects that existed on entry have their fields in the entry heap (objects created by a
                    # callee under contract live in the unconstrained part of the maps)
                    st.assume(z3.Implies(holder <= st.alloc0, fact) if holder is not None else fact)
        if isinstance(v, VTuple):
            for it in v.items:
                self.assume_wf(st, it)

    def set_field(self, st: State, obj: VObj, field, val: V, node=None):
        ft = self.field_type(obj.cls, field)
        owner = self.field_owner(obj.cls, field)
        if scalar_opt(ft):
            ln = getattr(node, "lineno", 0)
            mn = st.fmap(owner, field + "?", z3.BoolSort())
            mv = st.fmap(owner, field, sort_of(ft.args[0]))
            if isinstance(val, VNone):
                st.heap[("F", owner, field + "?")] = SStore(mn, obj.ref, z3.BoolVal(True))
            elif isinstance(val, VOpt):
                st.heap[("F", owner, field + "?")] = SStore(mn, obj.ref, val.none)
                st.heap[("F", owner, field)] = SStore(mv, obj.ref, self.unwrap(st, val.inner, ft.args[0]))
            else:
                st.heap[("F", owner, field + "?")] = SStore(mn, obj.ref, z3.BoolVal(False))
                st.heap[("F", owner, field)] = SStore(mv, obj.ref, self.unwrap(st, val, ft.args[0]))
            st.writes.append((("F", owner, field), obj.ref, ln))
            st.writes.append((("F", owner, field + "?"), obj.ref, ln))
            return
        m = st.fmap(owner, field, sort_of(ft))
        term = self.unwrap(st, val, ft)
        st.heap[("F", owner, field)] = SStore(m, obj.ref, term)
        st.writes.append((("F", owner, field), obj.ref, getattr(node, "lineno", 0)))

    def list_len(self, st: State, l) -> z3.ArithRef:
        if isinstance(l, VCList):
            return z3.IntVal(len(st.cl[l.id]))
        n = z3.Select(st.lenmap(), l.ref)
        st.assume(n >= 0)
        return n

    def list_get_raw(self, st: State, l: VList, idx) -> V:
        es = sort_of(l.elem)
        em = st.eltmap(es)
        term = z3.Select(z3.Select(em, l.ref), idx)
        v = self.wrap(st, term, l.elem)
        self.assume_wf(st, v, em if z3.is_const(em) else None, l.ref)
        return v

    def list_arr(self, st: State, l: VList):
        """The element array of a heap list, with select-over-store simplified away."""
        return z3.simplify(z3.Select(st.eltmap(sort_of(l.elem)), l.ref))

    def norm_index(self, st, n, idx):
        return z3.If(idx < 0, idx + n, idx)

    def list_get(self, st: State, l, idx_v: V, node=None) -> V:
        idx = idx_v.t
        if isinstance(l, VCList):
            items = st.cl[l.id]
            n = len(items)
            i = z3.simplify(idx)
            if z3.is_int_value(i):
                k = i.as_long()
                if k < 0:
                    k += n
                if not (0 <= k < n):
                    if st.spec_mode:
                        return self.fresh_value(st, l.elem if l.elem != TAny else TInt)
                    raise PyRaise(VExc("IndexError", (VStr("list index out of range"),)), node)
                return items[k]
            j = self.norm_index(st, z3.IntVal(n), idx)
            self.require(st, z3.And(j >= 0, j < n), "IndexError", node, "list index")
            if n == 0:
                return self.fresh_value(st, l.elem if l.elem != TAny else TInt)
            return self.ite_values(st, [(j == k, items[k]) for k in range(n)])
        if st.spec_mode:
            # in specifications subscripts are mathematical (no wrap-around of negative indices)
            return self.list_get_raw(st, l, z3.simplify(idx))
        n = self.list_len(st, l)
        j = z3.simplify(self.norm_index(st, n, idx))
        self.require(st, z3.And(j >= 0, j < n), "IndexError", node, "list index")
        return self.list_get_raw(st, l, j)

    def ite_values(self, st, cases):
        """cases: [(cond, V)] -> merged V (last case is the default)."""
        vs = [v for _, v in cases]
        v0 = vs[-1]
        if all(isinstance(v, VInt) for v in vs) or all(isinstance(v, VBool) for v in vs) or \
                all(isinstance(v, VStr) for v in vs) or all(isinstance(v, VReal) for v in vs):
            t = v0.t
            for c, v in reversed(cases[:-1]):
                t = z3.If(c, v.t, t)
            return type(v0)(t)
        if all(isinstance(v, VObj) for v in vs) and len({v.cls.key for v in vs}) == 1:
            t = v0.ref
            for c, v in reversed(cases[:-1]):
                t = z3.If(c, v.ref, t)
            return VObj(v0.cls, t, any(v.nullable for v in vs))
        if all(isinstance(v, VList) for v in vs):
            t = v0.ref
            for c, v in reversed(cases[:-1]):
                t = z3.If(c, v.ref, t)
            return VList(t, v0.elem, any(v.nullable for v in vs))
        if all(isinstance(v, VTuple) for v in vs) and len({len(v.items) for v in vs}) == 1:
            return VTuple([self.ite_values(st, [(c, v.items[k]) for c, v in cases]) for k in range(len(v0.items))])
        if all(isinstance(v, VNone) for v in vs):
            return VNone()
        if all(isinstance(v, (VObj, VNone)) for v in vs):
            o = next(v for v in vs if isinstance(v, VObj))
            cases2 = [(c, v if isinstance(v, VObj) else VObj(o.cls, z3.IntVal(0), True)) for c, v in cases]
            r = self.ite_values(st, cases2)
            r.nullable = True
            return r
        # fall back to an explicit fork
        for k, (c, v) in enumerate(cases[:-1]):
            if self.decide(st, c):
                return v
        return v0

    def list_set(self, st: State, l, idx_v: V, val: V, node=None):
        idx = idx_v.t
        if isinstance(l, VCList):
            items = list(st.cl[l.id])
            i = z3.simplify(idx)
            if z3.is_int_value(i):
                k = i.as_long()
                if k < 0:
                    k += len(items)
                if not (0 <= k < len(items)):
                    raise PyRaise(VExc("IndexError", (VStr("list assignment index out of range"),)), node)
                items[k] = val
                st.cl[l.id] = tuple(items)
                return
            raise Unsupported("symbolic index store into concrete list", node)
        n = self.list_len(st, l)
        j = self.norm_index(st, n, idx)
        self.require(st, z3.And(j >= 0, j < n), "IndexError", node, "list assignment index")
        es = sort_of(l.elem)
        em = st.eltmap(es)
        term = self.unwrap(st, val, l.elem)
        st.heap[("ELT", sort_name(es))] = SStore(em, l.ref, z3.Store(z3.Select(em, l.ref), j, term))
        st.writes.append((("ELT", sort_name(es)), l.ref, getattr(node, "lineno", 0)))

    def new_list(self, st: State, elem: T, n=None, prefix="lst", keys=False) -> VList:
        ref = st.new_ref(prefix)
        st.assume(IS_KEYS(ref) if keys else z3.Not(IS_KEYS(ref)))
        if n is not None:
            st.heap[("LEN",)] = SStore(st.lenmap(), ref, n)
        return VList(ref, elem)

    def list_append(self, st: State, l, val: V, node=None):
        if isinstance(l, VCList):
            st.cl[l.id] = st.cl[l.id] + (val,)
            return
        if l.elem == TAny:
            raise Unsupported("append to list of unknown element type", node)
        n = self.list_len(st, l)
        es = sort_of(l.elem)
        em = st.eltmap(es)
        term = self.unwrap(st, val, l.elem)
        em = st.eltmap(es)
        st.heap[("ELT", sort_name(es))] = SStore(em, l.ref, z3.Store(z3.Select(em, l.ref), n, term))
        st.heap[("LEN",)] = SStore(st.lenmap(), l.ref, n + 1)
        ln = getattr(node, "lineno", 0)
        st.writes.append((("ELT", sort_name(es)), l.ref, ln))
        st.writes.append((("LEN",), l.ref, ln))

    def materialize(self, st: State, cl: VCList, elem: T | None = None) -> VList:
        items = st.cl[cl.id]
        if elem is None or elem == TAny:
            elem = cl.elem
        if (elem is None or elem == TAny) and items:
            elem = items[0].typ
        if elem is None or elem == TAny:
            elem = TInt
        l = self.new_list(st, elem, z3.IntVal(len(items)))
        es = sort_of(elem)
        arr = z3.Select(st.eltmap(es), l.ref)
        for k, it in enumerate(items):
            arr = z3.Store(arr, z3.IntVal(k), self.unwrap(st, it, elem))
        st.heap[("ELT", sort_name(es))] = SStore(st.eltmap(es), l.ref, arr)
        return l

    def materialize_var(self, st: State, name, elem=None):
        v = st.env.get(name)
        if isinstance(v, VCList):
            st.env[name] = self.materialize(st, v, elem)

    # ------------------------------------------------------------------ truthiness / equality
    def truthy(self, st: State, v: V, node=None):
        if isinstance(v, VBool):
            return v.t
        if isinstance(v, VInt):
            return v.t != 0
        if isinstance(v, VReal):
            return v.t != 0
        if isinstance(v, VStr):
            return z3.Length(v.t) > 0
        if isinstance(v, VNone):
            return z3.BoolVal(False)
        if isinstance(v, VOpt):
            return z3.And(z3.Not(v.none), self.truthy(st, v.inner, node))
        if isinstance(v, VCList):
            return z3.BoolVal(len(st.cl[v.id]) > 0)
        if isinstance(v, VList):
            nn = self.list_len(st, v) > 0
            return z3.And(v.ref != 0, nn) if v.nullable else nn
        if isinstance(v, VDict):
            nn = self.b.dict_len(st, v) > 0
            return z3.And(v.ref != 0, nn) if v.nullable else nn
        if isinstance(v, VObj):
            m = v.cls.find_method("__bool__") or v.cls.find_method("__len__")
            if m is not None:
                if v.nullable:
                    if not self.decide(st, v.ref != 0):
                        return z3.BoolVal(False)
                r = self.call_function(st, m, [VObj(v.cls, v.ref)], {}, node)
                return self.truthy(st, r, node)
            return (v.ref != 0) if v.nullable else z3.BoolVal(True)
        if isinstance(v, VTuple):
            return z3.BoolVal(len(v.items) > 0)
        if isinstance(v, (VExt, VFunc, VClass, VModule)):
            return z3.BoolVal(True)
        if isinstance(v, VOpaque):
            return self.opaque_truthy(st, v)
        raise Unsupported(f"truthiness of {v!r}", node)

    def opaque_truthy(self, st, v):
        f = z3.Function("opaque_truthy", z3.IntSort(), z3.BoolSort())
        return f(v.t)

    def values_equal(self, st: State, a: V, b: V, node=None):
        """z3 Bool for Python `a == b`."""
        if isinstance(a, VBool) and isinstance(b, VBool):
            return a.t == b.t
        if isinstance(a, (VInt, VBool)) and isinstance(b, (VInt, VBool)):
            return self.as_int(a) == self.as_int(b)
        if isinstance(a, (VInt, VReal)) and isinstance(b, (VInt, VReal)):
            return self.as_real(a) == self.as_real(b)
        if isinstance(a, VStr) and isinstance(b, VStr):
            return a.t == b.t
        if isinstance(a, VOpt) or isinstance(b, VOpt):
            if isinstance(a, VOpt) and isinstance(b, VOpt):
                return z3.Or(z3.And(a.none, b.none), z3.And(z3.Not(a.none), z3.Not(b.none), self.values_equal(st, a.inner, b.inner, node)))
            o, x = (a, b) if isinstance(a, VOpt) else (b, a)
            if isinstance(x, VNone):
                return o.none
            return z3.And(z3.Not(o.none), self.values_equal(st, o.inner, x, node))
        if isinstance(a, VNone) or isinstance(b, VNone):
            o = b if isinstance(a, VNone) else a
            if isinstance(o, VNone):
                return z3.BoolVal(True)
            if isinstance(o, (VObj, VList, VDict)) and o.nullable:
                return o.ref == 0
            return z3.BoolVal(False)
        if isinstance(a, VTuple) and isinstance(b, VTuple):
            if len(a.items) != len(b.items):
                return z3.BoolVal(False)
            return z3.And([self.values_equal(st, x, y, node) for x, y in zip(a.items, b.items)]) if a.items else z3.BoolVal(True)
        if isinstance(a, VObj) and isinstance(b, VObj):
            eq = a.cls.find_method("__eq__")
            if eq is not None:
                r = self.call_function(st, eq, [a, b], {}, node)
                if isinstance(r, VExt) and r.kind == "NotImplemented":
                    eq2 = b.cls.find_method("__eq__")
                    if eq2 is not None and eq2 is not eq:
                        r2 = self.call_function(st, eq2, [b, a], {}, node)
                        if isinstance(r2, VExt) and r2.kind == "NotImplemented":
                            return a.ref == b.ref
                        return self.truthy(st, r2)
                    return a.ref == b.ref
                return self.truthy(st, r)
            if a.cls.is_dataclass and a.cls.key == b.cls.key:
                cs = []
                for f, _, _ in a.cls.dc_fields:
                    cs.append(self.values_equal(st, self.get_field(st, a, f), self.get_field(st, b, f), node))
                return z3.And(cs) if cs else z3.BoolVal(True)
            return a.ref == b.ref
        if isinstance(a, VOpaque) and isinstance(b, VOpaque):
            return a.t == b.t
        if isinstance(a, VExt) and isinstance(b, VExt):
            if a.ident == b.ident:
                return z3.BoolVal(True)
            return self.ext_term(st, a) == self.ext_term(st, b)
        if isinstance(a, (VCList, VList)) and isinstance(b, (VCList, VList)):
            return self.b.list_eq(st, a, b)
        if isinstance(a, VObj) and not isinstance(b, VObj):
            eq = a.cls.find_method("__eq__")
            if eq is not None:
                r = self.call_function(st, eq, [a, b], {}, node)
                if isinstance(r, VExt) and r.kind == "NotImplemented":
                    return z3.BoolVal(False)
                return self.truthy(st, r)
            return z3.BoolVal(False)
        if isinstance(b, VObj) and not isinstance(a, VObj):
            return self.values_equal(st, b, a, node)
        # values of unrelated kinds are unequal in Python
        kinds = lambda v: type(v).__name__
        if {kinds(a), kinds(b)} <= {"VInt", "VStr", "VTuple", "VCList", "VList", "VBool", "VReal"}:
            return z3.BoolVal(False)
        raise Unsupported(f"equality {a!r} == {b!r}", node)

    def as_int(self, v):
        if isinstance(v, VInt):
            return v.t
        if isinstance(v, VBool):
            return z3.If(v.t, z3.IntVal(1), z3.IntVal(0))
        raise Unsupported(f"expected int, got {v!r}")

    def as_real(self, v):
        if isinstance(v, VReal):
            return v.t
        return z3.ToReal(self.as_int(v))

    # ------------------------------------------------------------------ name lookup
    def lookup(self, st: State, name, node=None) -> V:
        env = st.env
        while env is not None:
            if name in env:
                return env[name]
            p = env.get("$parent")
            env = st.ghost["frames"][p] if p is not None else None
        mod = st.module
        if st.spec_mode and name in self.b.spec_builtins:
            return VFunc("spec", name=name)
        r = self.repo.resolve(mod, name) if mod else None
        if r is not None:
            return self.global_value(st, r, name, node)
        if name in self.spec_funcs:
            return VFunc("specfn", name=name, node=self.spec_funcs[name])
        if name in self.b.spec_builtins:
            return VFunc("spec", name=name)
        if name in self.b.builtins:
            return VFunc("builtin", name=name)
        if name in self.b.type_names:
            return VType(name)
        if name == "NotImplemented":
            return VExt("NotImplemented", 8999)
        raise Unsupported(f"unknown name {name}", node)

    def global_value(self, st, r, name, node):
        kind, x = r
        if kind == "func":
            return VFunc("repo", name=x.key, fn=x)
        if kind == "class":
            return VClass(x)
        if kind == "module":
            return VModule(x)
        if kind == "external":
            return self.b.external_value(st, x, node)
        if kind == "const":
            m, expr = x
            return self.eval_const(st, m.name, expr, node)
        raise Unsupported(f"global {name}", node)

    def eval_const(self, st, module, expr, node=None):
        s2 = st.fork()
        s2.module = module
        s2.env = {}
        v = self.ev(expr, s2)
        if isinstance(v, VCList):
            items = s2.cl[v.id]
            nv = st.new_clist(items, v.elem)
            return nv
        return v

    # ------------------------------------------------------------------ expressions
    def ev(self, n, st: State) -> V:
        m = getattr(self, "ev_" + type(n).__name__, None)
        if m is None:
            raise Unsupported(f"expression {type(n).__name__}", n)
        return m(n, st)

    def ev_Constant(self, n, st):
        v = n.value
        if isinstance(v, bool):
            return VBool(v)
        if isinstance(v, int):
            return VInt(v)
        if isinstance(v, str):
            return VStr(v)
        if v is None:
            return VNone()
        if isinstance(v, float):
            # in code: the exact value of the double; in specifications: the decimal that was written
            fr = Fraction(v) if not st.spec_mode else Fraction(repr(v))
            return VReal(z3.RealVal(fr.numerator) / z3.RealVal(fr.denominator))
        if v is Ellipsis:
            return VNone()
        raise Unsupported(f"constant {v!r}", n)

    def ev_Name(self, n, st):
        return self.lookup(st, n.id, n)

    def ev_Tuple(self, n, st):
        return VTuple([self.ev(e, st) for e in n.elts])

    def ev_List(self, n, st):
        items = []
        for e in n.elts:
            if isinstance(e, ast.Starred):
                raise Unsupported("starred in list display", n)
            items.append(self.ev(e, st))
        elem = items[0].typ if items else TAny
        if isinstance(items[0] if items else None, VCList):
            elem = TAny
        return st.new_clist(items, elem)

    def ev_Set(self, n, st):
        items = [self.ev(e, st) for e in n.elts]
        return self.b.new_set_from(st, items, n)

    def ev_Dict(self, n, st):
        if not n.keys:
            return VCDict({})
        d = {}
        for k, v in zip(n.keys, n.values):
            kv = self.ev(k, st)
            if not (isinstance(kv, VStr) and kv.concrete() is not None):
                raise Unsupported("dict display with non-literal key", n)
            d[kv.concrete()] = self.ev(v, st)
        return VCDict(d)

    def ev_JoinedStr(self, n, st):
        parts = []
        for p in n.values:
            if isinstance(p, ast.Constant):
                parts.append(z3.StringVal(p.value))
            else:
                v = self.ev(p.value, st)
                spec = ""
                if p.format_spec is not None:
                    sv = self.ev(p.format_spec, st)
                    spec = sv.concrete()
                    if spec is None:
                        raise Unsupported("dynamic format spec", n)
                conv = p.conversion
                parts.append(self.b.format_value(st, v, spec, conv, p))
        if not parts:
            return VStr("")
        t = parts[0]
        for p in parts[1:]:
            t = z3.Concat(t, p)
        return VStr(z3.simplify(t) if all(z3.is_string_value(p) for p in parts) else t)

    def ev_UnaryOp(self, n, st):
        v = self.ev(n.operand, st)
        if isinstance(n.op, ast.Not):
            return VBool(z3.Not(self.truthy(st, v, n)))
        if isinstance(n.op, ast.USub):
            if isinstance(v, VInt):
                return VInt(z3.simplify(-v.t))
            if isinstance(v, VReal):
                return VReal(-v.t)
        if isinstance(n.op, ast.UAdd) and isinstance(v, (VInt, VReal)):
            return v
        raise Unsupported("unary op", n)

    def ev_BoolOp(self, n, st):
        # Python semantics: returns an operand; we support bool-valued merges and short-circuit forks
        is_and = isinstance(n.op, ast.And)
        vals = []
        if st.spec_mode:
            ts = [self.truthy(st, self.ev(e, st), n) for e in n.values]
            return VBool(z3.And(ts) if is_and else z3.Or(ts))
        cur = self.ev(n.values[0], st)
        for e in n.values[1:]:
            t = self.truthy(st, cur, n)
            # try a pure, side-effect free merge when the rest is obviously pure and bool-typed
            go_on = self.decide(st, t) if is_and else (not self.decide(st, t))
            if not go_on:
                return cur
            cur = self.ev(e, st)
        return cur

    def ev_IfExp(self, n, st):
        c = self.truthy(st, self.ev(n.test, st), n)
        if st.spec_mode:
            a = self.ev(n.body, st)
            b = self.ev(n.orelse, st)
            return self.ite_values(st, [(c, a), (z3.BoolVal(True), b)])
        if self.decide(st, c):
            return self.ev(n.body, st)
        return self.ev(n.orelse, st)

    def ev_Compare(self, n, st):
        left = self.ev(n.left, st)
        conds = []
        for op, rn in zip(n.ops, n.comparators):
            right = self.ev(rn, st)
            conds.append(self.compare(st, op, left, right, n))
            left = right
        return VBool(z3.simplify(z3.And(conds)) if len(conds) > 1 else conds[0])

    def compare(self, st, op, a, b, node):
        if isinstance(op, ast.Eq):
            return self.values_equal(st, a, b, node)
        if isinstance(op, ast.NotEq):
            return z3.Not(self.values_equal(st, a, b, node))
        if isinstance(op, (ast.Is, ast.IsNot)):
            r = self.identical(st, a, b, node)
            return r if isinstance(op, ast.Is) else z3.Not(r)
        if isinstance(op, (ast.In, ast.NotIn)):
            r = self.b.contains(st, b, a, node)
            return r if isinstance(op, ast.In) else z3.Not(r)
        if isinstance(a, VTuple) and isinstance(b, VTuple) and len(a.items) == len(b.items):
            return self.lex_compare(st, op, a.items, b.items, node)
        if isinstance(a, VStr) and isinstance(b, VStr):
            if isinstance(op, ast.Lt):
                return z3.StrLT(a.t, b.t) if hasattr(z3, "StrLT") else a.t < b.t
            if isinstance(op, ast.LtE):
                return a.t <= b.t
            if isinstance(op, ast.Gt):
                return b.t < a.t
            if isinstance(op, ast.GtE):
                return b.t <= a.t
        if isinstance(a, VLine) or isinstance(b, VLine):
            return self.b.line_compare(st, op, a, b, node)
        if isinstance(a, (VInt, VBool, VReal)) and isinstance(b, (VInt, VBool, VReal)):
            if isinstance(a, VReal) or isinstance(b, VReal):
                x, y = self.as_real(a), self.as_real(b)
            else:
                x, y = self.as_int(a), self.as_int(b)
            if isinstance(op, ast.Lt):
                return x < y
            if isinstance(op, ast.LtE):
                return x <= y
            if isinstance(op, ast.Gt):
                return x > y
            if isinstance(op, ast.GtE):
                return x >= y
        raise Unsupported(f"comparison {type(op).__name__} on {a!r},{b!r}", node)

    def lex_compare(self, st, op, xs, ys, node):
        strict = isinstance(op, (ast.Lt, ast.Gt))
        lt = isinstance(op, (ast.Lt, ast.LtE))
        res = z3.BoolVal(not strict)
        for x, y in reversed(list(zip(xs, ys))):
            eq = self.values_equal(st, x, y, node)
            less = self.compare(st, ast.Lt() if lt else ast.Gt(), x, y, node)
            res = z3.Or(less, z3.And(eq, res))
        return res

    def identical(self, st, a, b, node):
        if isinstance(a, VNone) or isinstance(b, VNone) or isinstance(a, VOpt) or isinstance(b, VOpt):
            return self.values_equal(st, a, b, node)
        if isinstance(a, (VObj, VList, VDict)) and isinstance(b, (VObj, VList, VDict)):
            return a.ref == b.ref
        if isinstance(a, VBool) and isinstance(b, VBool):
            return a.t == b.t
        if isinstance(a, VExt) and isinstance(b, VExt):
            if a.ident == b.ident:
                return z3.BoolVal(True)
            return self.ext_term(st, a) == self.ext_term(st, b)
        if isinstance(a, VCList) and isinstance(b, VCList):
            return z3.BoolVal(a.id == b.id)
        if isinstance(a, (VCList, VList)) and isinstance(b, (VCList, VList)):
            return z3.BoolVal(False)
        raise Unsupported("identity comparison", node)

    def ev_BinOp(self, n, st):
        a = self.ev(n.left, st)
        b = self.ev(n.right, st)
        return self.binop(st, n.op, a, b, n)

    def binop(self, st, op, a, b, node):
        if isinstance(a, VLine) or isinstance(b, VLine):
            return self.b.line_arith(st, op, a, b, node)
        if isinstance(a, (VInt, VBool)) and isinstance(b, (VInt, VBool)):
            x, y = self.as_int(a), self.as_int(b)
            if isinstance(op, ast.Add):
                return VInt(z3.simplify(x + y))
            if isinstance(op, ast.Sub):
                return VInt(z3.simplify(x - y))
            if isinstance(op, ast.Mult):
                return VInt(z3.simplify(x * y))
            if isinstance(op, ast.Pow):
                xs, ys = z3.simplify(x), z3.simplify(y)
                if z3.is_int_value(xs) and z3.is_int_value(ys) and 0 <= ys.as_long() <= 64:
                    return VInt(xs.as_long() ** ys.as_long())
                raise Unsupported("symbolic power", node)
            if isinstance(op, ast.FloorDiv):
                self.require(st, y != 0, "ZeroDivisionError", node, "floor division")
                # Python floor division: z3 div is Euclidean for positive divisor; handle sign
                return VInt(z3.If(y > 0, x / y, (-x) / (-y)))
            if isinstance(op, ast.Mod):
                self.require(st, y != 0, "ZeroDivisionError", node, "modulo")
                return VInt(z3.If(y > 0, x % y, -((-x) % (-y))))  # x - y*floor(x/y)
            if isinstance(op, ast.Div):
                self.require(st, y != 0, "ZeroDivisionError", node, "division")
                return self.b.float_div(st, x, y)
        if isinstance(a, (VInt, VBool, VReal)) and isinstance(b, (VInt, VBool, VReal)):
            return self.b.float_binop(st, op, a, b, node)
        if isinstance(a, VStr) and isinstance(b, VStr) and isinstance(op, ast.Add):
            return VStr(z3.Concat(a.t, b.t))
        if isinstance(a, VStr) and isinstance(b, (VInt,)) and isinstance(op, ast.Mult):
            return VStr(self.b.str_repeat(a.t, b.t))
        if isinstance(a, VInt) and isinstance(b, VStr) and isinstance(op, ast.Mult):
            return VStr(self.b.str_repeat(b.t, a.t))
        if isinstance(a, (VList, VCList)) and isinstance(b, (VList, VCList)) and isinstance(op, ast.Add):
            return self.b.list_concat(st, a, b, node)
        if isinstance(a, VExt) or isinstance(b, VExt):
            return self.b.ext_binop(st, op, a, b, node)
        raise Unsupported(f"binop {type(op).__name__} on {a!r},{b!r}", node)

    def ev_Attribute(self, n, st):
        base = self.ev(n.value, st)
        return self.get_attr(st, base, n.attr, n)

    def dynamic(self, st, base):
        """Objects of a concretely built graph (C15) know their dynamic class by reference."""
        dyn = st.ghost.get("dyn")
        if dyn and isinstance(base, VObj):
            r = z3.simplify(base.ref)
            if z3.is_int_value(r) and r.as_long() in dyn and dyn[r.as_long()].key != base.cls.key:
                return VObj(dyn[r.as_long()], base.ref, False)
        return base

    def get_attr(self, st, base, attr, node):
        base = self.dynamic(st, base)
        if isinstance(base, VObj):
            if base.nullable:
                self.require(st, base.ref != 0, "AttributeError", node, f"None.{attr}")
                base = VObj(base.cls, base.ref)
            m = base.cls.find_method(attr)
            if m is not None:
                if m.is_property:
                    return self.call_function(st, m, [base], {}, node)
                if m.is_static:
                    return VFunc("repo", name=m.key, fn=m)
                return VFunc("bound", name=m.key, fn=m, self_v=base)
            if attr == "__class__":
                return VClass(base.cls)
            known = set()
            for c in base.cls.mro():
                known |= set(c.init_fields()) | set(self.reg.classes.get(c.name, {}).keys())
                if attr in c.class_attrs and attr not in c.init_fields():
                    return self.class_attr(st, c, attr, node)
            if attr not in known:
                ext_bases = [b for c in base.cls.mro() for b in c.bases if isinstance(b, str) and b not in ("ABC", "object")
                             and not b.startswith("Generic")]
                if ext_bases:
                    return VFunc("objext", self_v=base, name=attr)
                raise Unsupported(f"unknown attribute {base.cls.name}.{attr}", node)
            return self.get_field(st, base, attr, node)
        if isinstance(base, VClass):
            m = base.cls.find_method(attr)
            if m is not None:
                if m.is_classmethod:
                    return VFunc("bound", name=m.key, fn=m, self_v=base)
                return VFunc("repo", name=m.key, fn=m)
            if attr in ("name", "__name__"):
                return VStr(base.cls.name)
            for c in base.cls.mro():
                if attr in c.class_attrs:
                    return self.class_attr(st, c, attr, node)
            raise Unsupported(f"class attribute {base.cls.name}.{attr}", node)
        if isinstance(base, VModule):
            if not base.external:
                r = self.repo.resolve(base.name, attr)
                if r is None:
                    raise Unsupported(f"module attribute {base.name}.{attr}", node)
                return self.global_value(st, r, attr, node)
            return self.b.external_value(st, f"{base.name}.{attr}", node)
        return self.b.get_attr(st, base, attr, node)

    def class_attr(self, st, c: ClassInfo, attr, node):
        """Class-level attribute: mutable class state lives in the heap at ref 0 of a pseudo field."""
        ft = self.reg.classes.get(c.name, {}).get("@" + attr)
        if ft is not None:
            m = st.fmap(c.key, "@" + attr, sort_of(ft))
            return self.wrap(st, z3.Select(m, z3.IntVal(0)), ft)
        return self.eval_const(st, c.module, c.class_attrs[attr], node)

    def ev_Subscript(self, n, st):
        base = self.ev(n.value, st)
        if isinstance(n.slice, ast.Slice):
            lo = self.ev(n.slice.lower, st) if n.slice.lower is not None else None
            hi = self.ev(n.slice.upper, st) if n.slice.upper is not None else None
            step = self.ev(n.slice.step, st) if n.slice.step is not None else None
            return self.b.slice(st, base, lo, hi, step, n)
        idx = self.ev(n.slice, st)
        return self.subscript(st, base, idx, n)

    def subscript(self, st, base, idx, node):
        if isinstance(base, (VList, VCList)):
            if isinstance(base, VList) and base.nullable:
                self.require(st, base.ref != 0, "TypeError", node, "None[...]")
            if not isinstance(idx, (VInt, VBool)):
                raise Unsupported("non-int list index", node)
            return self.list_get(st, base, VInt(self.as_int(idx)), node)
        if isinstance(base, VTuple):
            i = z3.simplify(self.as_int(idx))
            if z3.is_int_value(i):
                k = i.as_long()
                if -len(base.items) <= k < len(base.items):
                    return base.items[k]
                raise PyRaise(VExc("IndexError", (VStr("tuple index out of range"),)), node)
            n = len(base.items)
            j = self.norm_index(st, z3.IntVal(n), i)
            self.require(st, z3.And(j >= 0, j < n), "IndexError", node, "tuple index")
            return self.ite_values(st, [(j == k, base.items[k]) for k in range(n)])
        return self.b.subscript(st, base, idx, node)

    def ev_Call(self, n, st):
        if st.spec_mode and isinstance(n.func, ast.Name) and n.func.id == "old" and "old" not in st.env:
            old = st.ghost.get("old_state")
            if old is None:
                raise Unsupported("old() without a pre-state", n)
            s2 = old.fork()
            s2.env = dict(st.env)
            s2.module = st.module
            s2.spec_mode = 1
            s2.ghost = dict(old.ghost)
            s2.ghost["frames"] = st.ghost.get("frames", [])
            s2.fresh_ctr = st.fresh_ctr
            v = self.ev(n.args[0], s2)
            st.fresh_ctr = s2.fresh_ctr
            for p in s2.pc[len(old.pc):]:
                st.assume(p)
            return v
        if st.spec_mode and isinstance(n.func, ast.Name) and n.func.id in ("implies", "iff") and n.func.id not in st.env:
            from .builtins import SpecFalse
            ts = []
            for a in n.args:
                if n.func.id == "implies" and len(ts) == 1 and z3.is_false(z3.simplify(ts[0])):
                    return VBool(True)      # antecedent is false on this path: the consequent need not be well-formed
                try:
                    ts.append(self.truthy(st, self.ev(a, st), n))
                except SpecFalse as e:
                    self.notes.append(f"sub-clause ill-formed on a path ({e}): {ast.unparse(a)[:80]}")
                    ts.append(z3.BoolVal(False))
            return VBool(z3.Implies(ts[0], ts[1]) if n.func.id == "implies" else ts[0] == ts[1])
        if isinstance(n.func, ast.Attribute) and isinstance(n.func.value, ast.Call) and \
                isinstance(n.func.value.func, ast.Name) and n.func.value.func.id == "super":
            return self.super_call(n, st)
        fv = self.ev(n.func, st)
        args = []
        for a in n.args:
            if isinstance(a, ast.Starred):
                sv = self.ev(a.value, st)
                if isinstance(sv, VTuple):
                    args.extend(sv.items)
                elif isinstance(sv, VCList):
                    args.extend(st.cl[sv.id])
                else:
                    raise Unsupported("*args of symbolic length", n)
            else:
                args.append(self.ev(a, st))
        kwargs = {}
        for k in n.keywords:
            if k.arg is None:
                dv = self.ev(k.value, st)
                if isinstance(dv, VCDict):
                    kwargs.update(dv.items)
                else:
                    return self.b.call_with_dynamic_kwargs(st, fv, args, dv, n)
            else:
                kwargs[k.arg] = self.ev(k.value, st)
        return self.call(st, fv, args, kwargs, n)

    def super_call(self, n, st):
        fk = st.ghost.get("fn_key") or self.cur_fn
        mod, qn = fk.split(":")
        cls = self.repo.modules[mod].classes[qn.split(".")[0]]
        meth = n.func.attr
        args = [self.ev(a, st) for a in n.args]
        kwargs = {k.arg: self.ev(k.value, st) for k in n.keywords}
        selfv = st.env.get("self")
        for c in cls.mro()[1:]:
            if meth in c.methods:
                return self.call_function(st, c.methods[meth], [selfv] + args, kwargs, n)
        # external base class (rich Table, ABC ...): ghost event
        st.trace.append(Event(selfv, "super." + meth, args, kwargs, getattr(n, "lineno", 0)))
        return VNone()

    def ev_in(self, st, text, env, module):
        node = ast.parse(text.strip(), mode="eval").body
        s = st.fork()
        s.env = dict(env)
        s.module = module
        s.spec_mode = 1
        return self.ev(node, s)

    def ev_Lambda(self, n, st):
        return VFunc("lambda", node=n, env=st.env, module=st.module)

    def ev_ListComp(self, n, st):
        return self.b.comprehension(st, n, "list")

    def ev_GeneratorExp(self, n, st):
        return self.b.comprehension(st, n, "gen")

    def ev_SetComp(self, n, st):
        return self.b.comprehension(st, n, "set")

    def ev_Starred(self, n, st):
        raise Unsupported("starred", n)

    # ------------------------------------------------------------------ calls
    def call(self, st: State, fv: V, args, kwargs, node) -> V:
        if isinstance(fv, VFunc):
            k = fv.kind
            if k == "repo":
                return self.call_function(st, fv.fn, args, kwargs, node)
            if k == "bound":
                return self.call_function(st, fv.fn, [fv.self_v] + list(args), kwargs, node)
            if k in ("lambda", "closure"):
                return self.call_closure(st, fv, args, kwargs, node)
            if k == "builtin":
                return self.b.call_builtin(st, fv.name, args, kwargs, node)
            if k == "spec":
                return self.b.call_spec(st, fv.name, args, kwargs, node)
            if k == "specfn":
                return self.call_specfn(st, fv, args, kwargs, node)
            if k == "method":
                return self.b.call_method(st, fv.self_v, fv.name, args, kwargs, node)
            if k == "extfn":
                return self.b.call_external(st, fv.name, args, kwargs, node)
            if k == "objext":
                # method inherited from an external base class (rich Table ...): ghost output event
                st.trace.append(Event(fv.self_v, fv.name, list(args), dict(kwargs), getattr(node, "lineno", 0)))
                return VNone()
        if isinstance(fv, VClass):
            return self.construct(st, fv.cls, args, kwargs, node)
        if isinstance(fv, VType):
            return self.b.call_type(st, fv.name, args, kwargs, node)
        if isinstance(fv, VExt):
            return self.b.call_external_obj(st, fv, args, kwargs, node)
        if isinstance(fv, VOpaque):
            # a callable handed in by the caller: recorded as an event; assumed not to touch the objects the function works on
            st.trace.append(Event("callback", "call", list(args), dict(kwargs), getattr(node, "lineno", 0)))
            self.used_assumptions.add("callbacks passed as parameters do not modify the objects the function works on")
            return VNone()
        raise Unsupported(f"call of {fv!r}", node)

    def bind_params(self, st, fnode, args, kwargs, node, defaults_module=None):
        a = fnode.args
        names = [p.arg for p in a.posonlyargs + a.args]
        env = {}
        if len(args) > len(names) and a.vararg is None:
            raise PyRaise(VExc("TypeError", (VStr("too many positional arguments"),)), node)
        for nm, v in zip(names, args):
            env[nm] = v
        if a.vararg is not None:
            env[a.vararg.arg] = VTuple(args[len(names):])
        kw = dict(kwargs)
        defaults = list(a.defaults)
        dstart = len(names) - len(defaults)
        for i, nm in enumerate(names):
            if nm in env:
                if nm in kw:
                    raise PyRaise(VExc("TypeError", (VStr(f"multiple values for {nm}"),)), node)
                continue
            if nm in kw:
                env[nm] = kw.pop(nm)
            elif i >= dstart:
                env[nm] = self.ev_default(st, defaults[i - dstart], defaults_module)
            else:
                raise PyRaise(VExc("TypeError", (VStr(f"missing argument {nm}"),)), node)
        for p, d in zip(a.kwonlyargs, a.kw_defaults):
            if p.arg in kw:
                env[p.arg] = kw.pop(p.arg)
            elif d is not None:
                env[p.arg] = self.ev_default(st, d, defaults_module)
            else:
                raise PyRaise(VExc("TypeError", (VStr(f"missing kw argument {p.arg}"),)), node)
        if kw:
            if a.kwarg is not None:
                env[a.kwarg.arg] = VCDict(kw)
            else:
                raise PyRaise(VExc("TypeError", (VStr(f"unexpected keyword {sorted(kw)[0]}"),)), node)
        return env

    def ev_default(self, st, dnode, module):
        if isinstance(dnode, (ast.List, ast.Dict, ast.Set, ast.ListComp, ast.DictComp, ast.SetComp)) or \
                (isinstance(dnode, ast.Call) and isinstance(dnode.func, ast.Name) and dnode.func.id in ("list", "dict", "set", "defaultdict")):
            # evaluated once when the function is defined: one object shared by all calls (state that outlives the call)
            raise Unsupported("mutable default argument (one object shared between calls)", dnode)
        s2 = st.fork()
        s2.env = {}
        if module:
            s2.module = module
        v = self.ev(dnode, s2)
        if isinstance(v, VCList):
            return st.new_clist(s2.cl[v.id], v.elem)
        return v

    def call_closure(self, st, fv, args, kwargs, node):
        fnode = fv.node
        if fv.kind == "lambda":
            env = self.bind_params(st, fnode, args, kwargs, node)
            saved_env, saved_mod = st.env, st.module
            frames = st.ghost.setdefault("frames", [])
            frames = list(frames)
            frames.append(fv.env)
            st.ghost["frames"] = frames
            env["$parent"] = len(frames) - 1
            st.env = env
            st.module = fv.module or saved_mod
            try:
                return self.ev(fnode.body, st)
            finally:
                st.env, st.module = saved_env, saved_mod
        # nested def: executed inline with its defining frame as parent
        env = self.bind_params(st, fnode, args, kwargs, node)
        if st.spec_mode:
            frames = list(st.ghost.get("frames", []))
            frames.append(self.find_def_env(st, fv))
            saved_frames = st.ghost.get("frames", [])
            st.ghost = dict(st.ghost)
            st.ghost["frames"] = frames
            env["$parent"] = len(frames) - 1
            try:
                return self.spec_body(st, fnode.body, env)
            finally:
                st.ghost["frames"] = saved_frames
        return self.inline_body(st, fnode, env, node, parent_env=self.find_def_env(st, fv), module=fv.module,
                                key=getattr(fv, "key", None))

    def find_def_env(self, st, fv):
        # the defining frame is identified by a token stored in its env at definition time
        tok = fv.frame_token
        env = st.env
        if env.get("$frame") == tok:
            return env
        for e in reversed(st.ghost.get("stack", [])):
            if e.get("$frame") == tok:
                return e
        raise Unsupported("closure called outside the lifetime of its defining frame")

    def inline_body(self, st: State, fnode, env, node, parent_env=None, module=None, key=None):
        """Execute a function body inline; the caller continues on the outcome selected by the decision log."""
        if st.call_depth > 12:
            raise Unsupported("inline depth exceeded (recursion without contract?)", node)
        callee = st.fork()
        stack = list(st.ghost.get("stack", []))
        stack.append(st.env)
        callee.ghost["stack"] = stack
        if parent_env is not None:
            frames = list(callee.ghost.get("frames", []))
            frames.append(parent_env)
            callee.ghost["frames"] = frames
            env["$parent"] = len(frames) - 1
        callee.env = env
        env["$frame"] = ("frame", id(fnode), st.fresh_ctr, st.call_depth)
        callee.call_depth += 1
        if module:
            callee.module = module
        callee.decisions = []
        callee.dpos = 0
        saved_fn = None
        if key is not None:
            callee.ghost["fn_key"] = key
        outs = self.run_block(fnode.body, callee)
        outs = [(s, o) for s, o in outs if not self.is_dead(s)]
        if not outs:
            st.assume(z3.BoolVal(False))
            raise DeadPath()
        idx = 0 if len(outs) == 1 else self.choose(st, len(outs))
        s2, out = outs[idx]
        caller_env, caller_mod, caller_ghost_stack = st.env, st.module, st.ghost.get("stack", [])
        caller_frames = st.ghost.get("frames", [])
        caller_fnkey = st.ghost.get("fn_key")
        # closures mutate their parent's env through s2's copy of it: propagate parent env changes
        new_parent = None
        if parent_env is not None:
            new_parent = s2.ghost["frames"][env["$parent"]]
        st.become(s2)
        st.call_depth -= 1
        st.module = caller_mod
        st.ghost["stack"] = caller_ghost_stack
        st.ghost["frames"] = caller_frames
        st.ghost["fn_key"] = caller_fnkey
        st.env = caller_env
        if new_parent is not None and new_parent is not parent_env:
            # nonlocal-free closures only read; still keep rebinding of mutable CLists consistent
            pass
        if out.kind == "return":
            return out.value if out.value is not None else VNone()
        if out.kind == "normal":
            return VNone()
        if out.kind == "raise":
            raise PyRaise(out.value, out.node)
        raise Unsupported(f"outcome {out.kind} escaping function", node)

    def is_dead(self, s: State):
        return any(z3.is_false(c) for c in s.pc[-3:])

    def call_specfn(self, st, fv, args, kwargs, node):
        env = self.bind_params(st, fv.node, args, kwargs, node)
        saved = st.spec_mode
        st.spec_mode = 1
        try:
            return self.spec_body(st, fv.node.body, env)
        finally:
            st.spec_mode = saved

    def spec_body(self, st, body, env):
        """Spec functions: straight-line `return e` / if-return chains, merged into one value."""
        saved_env = st.env
        st.env = env
        try:
            return self._spec_stmts(st, body)
        finally:
            st.env = saved_env

    def _spec_stmts(self, st, body):
        for i, s in enumerate(body):
            if isinstance(s, ast.Expr) and isinstance(s.value, ast.Constant):
                continue
            if isinstance(s, ast.Return):
                return self.ev(s.value, st)
            if isinstance(s, ast.Assign) and len(s.targets) == 1 and isinstance(s.targets[0], ast.Name):
                st.env[s.targets[0].id] = self.ev(s.value, st)
                continue
            if isinstance(s, ast.If):
                c = self.truthy(st, self.ev(s.test, st))
                saved = dict(st.env)
                a = self._spec_stmts(st, s.body + body[i + 1:])
                st.env = dict(saved)
                b = self._spec_stmts(st, s.orelse + body[i + 1:])
                st.env = saved
                return self.ite_values(st, [(c, a), (z3.BoolVal(True), b)])
            raise Unsupported(f"statement {type(s).__name__} in spec function", s)
        raise Unsupported("spec function without return")

    def check_call_site(self, st: State, fn: FuncInfo, args, kwargs, node):
        fk = st.ghost.get("fn_key") or self.cur_fn
        cc = self.reg.get(fk) if fk else None
        if cc is None or not cc.call_sites or st.spec_mode:
            return
        for pat, clauses in cc.call_sites.items():
            if pat not in (fn.qualname, fn.node.name, fn.key):
                continue
            env = {k: v for k, v in st.env.items()}
            try:
                bound = self.bind_params(st, fn.node, args, kwargs, node, fn.module)
            except PyRaise:
                bound = {}
            for i, a in enumerate(args):
                env[f"arg{i}"] = a
            for k, v in bound.items():
                env["arg_" + k] = v
            # argN also names the N-th parameter when it is passed by keyword or left to its default
            pnames = [p.arg for p in fn.node.args.posonlyargs + fn.node.args.args]
            off = 0
            for i, pn in enumerate(pnames):
                if f"arg{i + off}" not in env and pn in bound:
                    env[f"arg{i + off}"] = bound[pn]
            line = getattr(node, "lineno", 0)
            for nm, text in clauses.items():
                g = self.eval_clause(st, text, env, st.module, old_state=st.entry)
                self.add_obligation(st, f"call-site:{fn.qualname}:{nm}@{line}", "call-site", g, node, text)
            seen = st.ghost.get("call_sites_seen", frozenset())
            st.ghost = dict(st.ghost)
            st.ghost["call_sites_seen"] = seen | {pat}

    def call_function(self, st: State, fn: FuncInfo, args, kwargs, node) -> V:
        self.check_call_site(st, fn, args, kwargs, node)
        if st.spec_mode:
            return self._call_function(st, fn, args, kwargs, node)
        ev = Event("call", fn.qualname, list(args), dict(kwargs), getattr(node, "lineno", 0))
        ev.result = None
        pos = len(st.trace)
        st.trace.append(ev)
        r = self._call_function(st, fn, args, kwargs, node)
        ev2 = Event("call", fn.qualname, list(args), dict(kwargs), getattr(node, "lineno", 0))
        ev2.result = r
        ev2.key = fn.key
        cc = self.reg.get(fn.key)
        ev2.modular = cc is not None and not cc.inline
        # the callee may have appended events (inline execution): keep order, replace the marker
        if pos < len(st.trace) and st.trace[pos] is ev:
            st.trace[pos] = ev2
        return r

    def _call_function(self, st: State, fn: FuncInfo, args, kwargs, node) -> V:
        c = self.reg.get(fn.key)
        if st.spec_mode and (c is None or c.inline or fn.key in self.reg.inline):
            # pure helper used inside a specification: summarise by inlining in spec mode
            env = self.bind_params(st, fn.node, args, kwargs, node, fn.module)
            saved_mod = st.module
            st.module = fn.module
            try:
                return self.spec_body(st, fn.node.body, env)
            finally:
                st.module = saved_mod
        if c is not None and not c.inline and not (self.cur_fn == fn.key and st.call_depth == 0 and False):
            return self.call_contract(st, fn, c, args, kwargs, node)
        env = self.bind_params(st, fn.node, args, kwargs, node, fn.module)
        return self.inline_body(st, fn.node, env, node, module=fn.module, key=fn.key)

    def construct(self, st: State, cls: ClassInfo, args, kwargs, node) -> V:
        ext_base = [b for c in cls.mro() for b in c.bases if isinstance(b, str)]
        exc_like = any(b in ("Exception", "ValueError", "RuntimeError") for b in ext_base)
        if exc_like:
            return VExc(cls.name, args, kwargs)
        ref = st.new_ref("o_" + cls.name)
        obj = VObj(cls, ref)
        init = cls.find_method("__init__")
        if init is not None:
            self.call_function(st, init, [obj] + list(args), kwargs, node)
        elif cls.is_dataclass:
            fields = []
            for c in reversed(cls.mro()):
                if c.is_dataclass:
                    fields.extend(c.dc_fields)
            names = [f for f, _, _ in fields]
            vals = dict(zip(names, args))
            for k, v in kwargs.items():
                if k not in names:
                    raise PyRaise(VExc("TypeError", (VStr(f"unexpected keyword {k}"),)), node)
                if k in vals:
                    raise PyRaise(VExc("TypeError", (VStr(f"multiple values for {k}"),)), node)
                vals[k] = v
            if len(args) > len(names):
                raise PyRaise(VExc("TypeError", (VStr("too many arguments"),)), node)
            for f, ann, default in fields:
                if f in vals:
                    self.set_field(st, obj, f, vals[f], node)
                elif default is not None:
                    self.set_field(st, obj, f, self.ev_default(st, default, cls.module), node)
                else:
                    raise PyRaise(VExc("TypeError", (VStr(f"missing argument {f}"),)), node)
        elif args or kwargs:
            # constructor of an external base (rich Table ...): ghost event
            pass
        return obj

    # ------------------------------------------------------------------ modular calls
    def clause_env(self, st: State, fn: FuncInfo, c: Contract, bound: dict):
        return dict(bound)

    def eval_clause(self, st: State, text, env, module, old_state=None, extra=None):
        """Evaluate a clause (python expression text) to a z3 Bool in spec mode."""
        node = ast.parse(text.strip(), mode="eval").body
        s = st.fork()
        s.env = dict(env)
        if extra:
            s.env.update(extra)
        s.module = module
        s.spec_mode = 1
        s.ghost = dict(st.ghost)
        s.ghost["old_state"] = old_state
        from .builtins import SpecFalse
        try:
            v = self.ev(node, s)
            t = self.truthy(s, v)
        except SpecFalse as e:
            self.notes.append(f"clause ill-formed on a path ({e}): {text}")
            t = z3.BoolVal(False)
        # facts assumed during spec evaluation (e.g. len >= 0, well-formedness) flow back
        for p in s.pc[len(st.pc):]:
            st.assume(p)
        st.fresh_ctr = s.fresh_ctr
        for k, v in s.ext.items():
            if k not in st.ext or len(v) > len(st.ext[k]):
                st.ext[k] = v
        return t

    def call_contract(self, st: State, fn: FuncInfo, c: Contract, args, kwargs, node) -> V:
        if c.pure and not c.modifies and not c.raises and not c.fresh_result:
            try:
                key = (fn.key, tuple(str(self.unwrap(st, a)) for a in args), tuple(sorted(kwargs)),
                       tuple(sorted((str(k), v.get_id()) for k, v in st.heap.items())))
            except Unsupported:
                key = None
            memo = st.ghost.get("pure_memo", {})
            if key is not None and key in memo:
                return memo[key]
            r = self._call_contract(st, fn, c, args, kwargs, node)
            if key is not None:
                memo = dict(st.ghost.get("pure_memo", {}))
                key2 = (key[0], key[1], key[2], tuple(sorted((str(k), v.get_id()) for k, v in st.heap.items())))
                memo[key] = r
                memo[key2] = r
                st.ghost = dict(st.ghost)
                st.ghost["pure_memo"] = memo
            return r
        return self._call_contract(st, fn, c, args, kwargs, node)

    def _call_contract(self, st: State, fn: FuncInfo, c: Contract, args, kwargs, node) -> V:
        env = self.bind_params(st, fn.node, args, kwargs, node, fn.module)
        for pname, pt in c.params.items():
            if pname in env:
                env[pname] = self.coerce(st, env[pname], pt)
        line = getattr(node, "lineno", 0)
        # preconditions
        for nm, text in c.requires.items():
            g = self.eval_clause(st, text, env, fn.module)
            self.check_now(st, f"pre:{fn.qualname}:{nm}@{line}", "precondition", g, node, text)
        pre = st.fork()
        # havoc modifies
        for m in c.modifies:
            if m.strip() == "*":
                continue    # frame of the callee not verified; only the listed targets are havocked (stated in evidence)
            self.havoc_target(st, m, env, fn.module, node)
        if c.fresh_result or c.modifies or not c.pure:
            na = st.fresh("alloc", z3.IntSort())
            st.assume(na >= st.alloc)
            st.alloc = na
        # exceptional outcomes
        if c.raises and c.callers_assume_no_raise:
            self.used_assumptions.add(f"assumed at call sites: {fn.qualname} raises none of {sorted(c.raises)} ({c.note})")
        elif c.raises:
            names = list(c.raises.keys())
            feas = []
            for en in names:
                cond = c.raises[en]
                feas.append(en)
            k = self.choose(st, len(feas) + 1)
            if k > 0:
                en = feas[k - 1]
                cond = c.raises[en]
                if cond:
                    st.assume(self.eval_clause(st, cond, env, fn.module, old_state=pre))
                exc = VExc(en, ())
                for nm, text in c.ensures_raise.get(en, {}).items():
                    st.assume(self.eval_clause(st, text, env, fn.module, old_state=pre, extra={"exc": exc}))
                raise PyRaise(exc, node)
            for en in names:
                cond = c.raises[en]
                if cond and cond.startswith("iff:"):
                    st.assume(z3.Not(self.eval_clause(st, cond[4:], env, fn.module, old_state=pre)))
        rt = c.returns
        if rt is None:
            rt = parse_type(ast.unparse(fn.node.returns)) if fn.node.returns is not None else TNone
        res = None
        if c.pure and not c.modifies and not c.fresh_result and rt.kind in ("int", "str", "bool"):
            # a pure function of scalar arguments is a function: the same arguments give the same result
            try:
                pvals = [env[a.arg] for a in fn.node.args.args if a.arg in env]
                if pvals and all(isinstance(v, (VInt, VStr, VBool)) for v in pvals):
                    uf = z3.Function("pure_" + fn.key.replace(":", "_").replace(".", "_"), *[v.t.sort() for v in pvals], sort_of(rt))
                    res = self.wrap(st, uf(*[v.t for v in pvals]), rt)
            except Exception as e:
                print("PUREFAIL", e, file=sys.stderr)
                res = None
        if res is None:
            res = self.fresh_value(st, rt, "res_" + fn.node.name)
        if c.fresh_result and isinstance(res, (VObj, VList, VDict)):
            st.assume(res.ref > pre.alloc)
        for nm, text in c.ensures.items():
            if c.caller_ensures is not None and nm not in c.caller_ensures:
                continue  # not needed by any caller's proof: keeps the callers' queries small (still proved for the callee)
            if self.mentions_trace(text):
                continue  # statements about the callee's own output events are not usable by callers
            try:
                st.assume(self.eval_clause(st, text, env, fn.module, old_state=pre, extra={"result": res}))
            except Unsupported as u:
                if "unknown name" in u.reason:
                    continue    # the clause speaks about the callee's locals: not usable by callers
                raise
        if c.assumed:
            self.used_assumptions.add(f"assumed contract: {fn.key}")
        return res

    TRACE_FUNCS = {"out_len", "out_method", "out_arg", "out_kw", "trace_len", "trace_method", "trace_arg", "trace_kw",
                   "trace_target", "called", "call_result", "call_count"}

    def mentions_trace(self, text):
        tree = ast.parse(text.strip(), mode="eval")
        return any(isinstance(n, ast.Name) and n.id in self.TRACE_FUNCS for n in ast.walk(tree))

    def coerce(self, st, v, t: T):
        if isinstance(v, VCList) and t.kind == "list":
            return self.materialize(st, v, t.args[0])
        return v

    def havoc_target(self, st, text, env, module, node):
        """text: 'obj.field' (field slot), 'expr[]' (list content), 'expr{}' (dict content)."""
        text = text.strip()
        content = None
        if text.endswith("[]"):
            content, text = "list", text[:-2]
        elif text.endswith("{}"):
            content, text = "dict", text[:-2]
        expr = ast.parse(text, mode="eval").body
        s = st.fork()
        s.env = dict(env)
        s.module = module
        s.spec_mode = 1
        if content is None:
            if not isinstance(expr, ast.Attribute):
                raise Unsupported(f"modifies target {text}")
            base = self.ev(expr.value, s)
            if isinstance(base, VClass):
                ft = self.reg.classes.get(base.cls.name, {}).get("@" + expr.attr)
                m = st.fmap(base.cls.key, "@" + expr.attr, sort_of(ft))
                st.heap[("F", base.cls.key, "@" + expr.attr)] = SStore(m, z3.IntVal(0), st.fresh("hv", sort_of(ft)))
                return
            ft = self.field_type(base.cls, expr.attr)
            owner = self.field_owner(base.cls, expr.attr)
            m = st.fmap(owner, expr.attr, sort_of(ft))
            nv = st.fresh("hv_" + expr.attr, sort_of(ft))
            st.heap[("F", owner, expr.attr)] = SStore(m, base.ref, nv)
            st.writes.append((("F", owner, expr.attr), base.ref, getattr(node, "lineno", 0)))
            if ft.kind in ("obj", "list", "dict", "opt"):
                pass
            return
        v = self.ev(expr, s)
        if content == "list":
            if isinstance(v, VCList):
                raise Unsupported("havoc of concrete list")
            es = sort_of(v.elem)
            st.heap[("LEN",)] = SStore(st.lenmap(), v.ref, st.fresh("hv_len", z3.IntSort()))
            st.heap[("ELT", sort_name(es))] = SStore(st.eltmap(es), v.ref,
                                                       st.fresh("hv_elt", z3.ArraySort(z3.IntSort(), es)))
            ln = getattr(node, "lineno", 0)
            st.writes.append((("LEN",), v.ref, ln))
            st.writes.append((("ELT", sort_name(es)), v.ref, ln))
        else:
            self.b.havoc_dict(st, v, node)

    def check_now(self, st: State, name, kind, goal, node, clause=""):
        """Record an obligation `pc => goal` and continue under the assumption that it holds."""
        g = z3.simplify(goal)
        if z3.is_true(g):
            ob = Obligation(f"{self.cur_fn}::{name}", self.cur_fn, kind, [], z3.BoolVal(True),
                            getattr(node, "lineno", 0), clause, result="valid", backend="trivial")
            self._inline_discharged(ob)
            return
        self.add_obligation(st, name, kind, goal, node, clause)
        st.assume(goal)

    # ------------------------------------------------------------------ statements
    def run_block(self, stmts, st: State):
        results = []
        work = [(st, 0)]
        while work:
            s, idx = work.pop()
            if idx >= len(stmts):
                results.append((s, NORMAL))
                continue
            for s2, out in self.run_stmt(stmts[idx], s):
                if out.kind == "normal":
                    work.append((s2, idx + 1))
                else:
                    results.append((s2, out))
        return results

    def run_stmt(self, stmt, st: State):
        outs = []
        pending = [[]]
        guard = 0
        while pending:
            dec = pending.pop()
            guard += 1
            if guard > 4000:
                raise Unsupported("path explosion in one statement", stmt)
            s = st.fork()
            s.decisions = dec
            s.dpos = 0
            try:
                res = self._stmt(stmt, s)
                outs.extend(res)
            except NeedFork as nf:
                for k in reversed(range(nf.n)):
                    pending.append(dec + [k])
            except PyRaise as e:
                outs.append((s, Outcome("raise", e.exc, e.node or stmt)))
            except DeadPath:
                pass
            except Drift:
                raise
            except Unsupported as u:
                cc = self.cur_contract
                if cc is None or not cc.tolerate_unsupported or getattr(self, "discovery", 0) or isinstance(u, BudgetExceeded):
                    raise
                note = f"path dropped (unsupported: {u.reason}, line {getattr(u.node, 'lineno', '?')}) - left to the bounded stand-in"
                if note not in self.unverified_paths:
                    self.unverified_paths.append(note)
        self.paths += len(outs)
        return outs

    def _stmt(self, n, st: State):
        m = getattr(self, "st_" + type(n).__name__, None)
        if m is None:
            raise Unsupported(f"statement {type(n).__name__}", n)
        r = m(n, st)
        if r is None:
            return [(st, NORMAL)]
        return r

    def st_Expr(self, n, st):
        if isinstance(n.value, ast.Constant):
            return
        self.ev(n.value, st)

    def st_Pass(self, n, st):
        return

    def st_Import(self, n, st):
        return

    def st_ImportFrom(self, n, st):
        return

    def st_Return(self, n, st):
        v = self.ev(n.value, st) if n.value is not None else VNone()
        return [(st, Outcome("return", v, n))]

    def st_Break(self, n, st):
        return [(st, BREAK)]

    def st_Continue(self, n, st):
        return [(st, CONTINUE)]

    def st_Raise(self, n, st):
        if n.exc is None:
            cur = st.ghost.get("cur_exc")
            if cur is None:
                raise Unsupported("bare raise outside handler", n)
            raise PyRaise(cur, n)
        v = self.ev(n.exc, st)
        if isinstance(v, VType):
            v = VExc(v.name, ())
        if isinstance(v, VClass):
            v = VExc(v.cls.name, ())
        if not isinstance(v, VExc):
            raise Unsupported(f"raise of {v!r}", n)
        raise PyRaise(v, n)

    def st_Assert(self, n, st):
        c = self.truthy(st, self.ev(n.test, st), n)
        self.require(st, c, "AssertionError", n, "assert")

    def st_Assign(self, n, st):
        v = self.ev(n.value, st)
        for t in n.targets:
            self.assign(st, t, v, n)

    def st_AnnAssign(self, n, st):
        if n.value is None:
            return
        v = self.ev(n.value, st)
        if isinstance(v, VCList) and n.annotation is not None:
            try:
                t = parse_type(ast.unparse(n.annotation))
                if t.kind == "list" and t.args[0] != TAny:
                    v.elem = t.args[0]
                    st.ghost.setdefault("elem_hint", {})
            except Exception:
                pass
        self.assign(st, n.target, v, n)

    def st_AugAssign(self, n, st):
        tgt = n.target
        if isinstance(tgt, ast.Name):
            cur = self.lookup(st, tgt.id, n)
            if isinstance(cur, (VList, VCList)) and isinstance(n.op, ast.Add):
                raise Unsupported("list += ", n)
            st.env[tgt.id] = self.binop(st, n.op, cur, self.ev(n.value, st), n)
            return
        if isinstance(tgt, ast.Attribute):
            base = self.ev(tgt.value, st)
            cur = self.get_attr(st, base, tgt.attr, n)
            nv = self.binop(st, n.op, cur, self.ev(n.value, st), n)
            self.set_attr(st, base, tgt.attr, nv, n)
            return
        if isinstance(tgt, ast.Subscript):
            base = self.ev(tgt.value, st)
            idx = self.ev(tgt.slice, st)
            cur = self.subscript(st, base, idx, n)
            nv = self.binop(st, n.op, cur, self.ev(n.value, st), n)
            self.store_subscript(st, base, idx, nv, n)
            return
        raise Unsupported("augassign target", n)

    def assign(self, st, t, v, node):
        if isinstance(t, ast.Name):
            if isinstance(v, VCList) and (v.elem is None or v.elem == TAny):
                fk = st.ghost.get("fn_key") or self.cur_fn
                cc = self.reg.get(fk) if fk else None
                if cc is not None and t.id in cc.locals and cc.locals[t.id].kind == "list":
                    v.elem = cc.locals[t.id].args[0]
                    if not st.cl[v.id]:
                        # a declared local list starts its life in the heap (it will grow symbolically)
                        st.env[t.id] = self.materialize(st, v, v.elem)
                        return
            st.env[t.id] = v
            return
        if isinstance(t, (ast.Tuple, ast.List)):
            items = self.unpack(st, v, len(t.elts), node)
            for tt, it in zip(t.elts, items):
                self.assign(st, tt, it, node)
            return
        if isinstance(t, ast.Attribute):
            base = self.ev(t.value, st)
            self.set_attr(st, base, t.attr, v, node)
            return
        if isinstance(t, ast.Subscript):
            base = self.ev(t.value, st)
            if isinstance(t.slice, ast.Slice):
                return self.b.store_slice(st, base, t.slice, v, node)
            idx = self.ev(t.slice, st)
            self.store_subscript(st, base, idx, v, node)
            return
        raise Unsupported("assignment target", node)

    def unpack(self, st, v, n, node):
        if isinstance(v, VTuple):
            if len(v.items) != n:
                raise PyRaise(VExc("ValueError", (VStr("unpack"),)), node)
            return list(v.items)
        if isinstance(v, VCList):
            items = st.cl[v.id]
            if len(items) != n:
                raise PyRaise(VExc("ValueError", (VStr("unpack"),)), node)
            return list(items)
        if isinstance(v, VList):
            ln = self.list_len(st, v)
            self.require(st, ln == n, "ValueError", node, "unpack")
            return [self.list_get_raw(st, v, z3.IntVal(k)) for k in range(n)]
        raise Unsupported(f"unpack of {v!r}", node)

    def set_attr(self, st, base, attr, v, node):
        if isinstance(base, VObj):
            if base.nullable:
                self.require(st, base.ref != 0, "AttributeError", node, f"None.{attr}")
            self.set_field(st, base, attr, v, node)
            return
        if isinstance(base, VClass):
            ft = self.reg.classes.get(base.cls.name, {}).get("@" + attr)
            if ft is None:
                raise Unsupported(f"store to class attribute {base.cls.name}.{attr} (declare '@{attr}')", node)
            m = st.fmap(base.cls.key, "@" + attr, sort_of(ft))
            st.heap[("F", base.cls.key, "@" + attr)] = SStore(m, z3.IntVal(0), self.unwrap(st, v, ft))
            st.writes.append((("F", base.cls.key, "@" + attr), z3.IntVal(0), getattr(node, "lineno", 0)))
            return
        if isinstance(base, VExt):
            st.ext_set(base, attr, v)
            return
        raise Unsupported(f"attribute store on {base!r}", node)

    def store_subscript(self, st, base, idx, v, node):
        if isinstance(base, (VList, VCList)):
            self.list_set(st, base, VInt(self.as_int(idx)), v, node)
            return
        self.b.store_subscript(st, base, idx, v, node)

    def st_If(self, n, st):
        c = self.truthy(st, self.ev(n.test, st), n)
        if self.decide(st, c):
            return self.run_block(n.body, st)
        return self.run_block(n.orelse, st)

    def st_FunctionDef(self, n, st):
        tok = st.env.get("$frame")
        if tok is None:
            tok = ("frame", id(n), st.fresh_ctr, st.call_depth)
            st.env["$frame"] = tok
        key = None
        fk = st.ghost.get("fn_key") or self.cur_fn
        if fk:
            key = f"{fk}.<locals>.{n.name}"
        st.env[n.name] = VFunc("closure", node=n, frame_token=tok, module=st.module, name=n.name, key=key)

    def st_With(self, n, st):
        for item in n.items:
            cm = self.ev(item.context_expr, st)
            v = self.b.enter_context(st, cm, item, n)
            if item.optional_vars is not None:
                self.assign(st, item.optional_vars, v, n)
        return self.run_block(n.body, st)

    def st_Try(self, n, st):
        if n.finalbody:
            raise Unsupported("try/finally", n)
        outs = []
        for s, out in self.run_block(n.body, st):
            if out.kind == "raise":
                handled = False
                for h in n.handlers:
                    names = self.handler_names(s, h)
                    if exc_matches(out.value.tname, names):
                        handled = True
                        s2 = s
                        if h.name:
                            s2.env[h.name] = out.value
                        prev = s2.ghost.get("cur_exc")
                        s2.ghost = dict(s2.ghost)
                        s2.ghost["cur_exc"] = out.value
                        for s3, o3 in self.run_block(h.body, s2):
                            s3.ghost = dict(s3.ghost)
                            s3.ghost["cur_exc"] = prev
                            outs.append((s3, o3))
                        break
                if not handled:
                    outs.append((s, out))
            elif out.kind == "normal" and n.orelse:
                outs.extend(self.run_block(n.orelse, s))
            else:
                outs.append((s, out))
        return outs

    def handler_names(self, st, h):
        if h.type is None:
            return ["BaseException"]
        ts = h.type.elts if isinstance(h.type, ast.Tuple) else [h.type]
        names = []
        for t in ts:
            if isinstance(t, ast.Name):
                names.append(t.id)
            elif isinstance(t, ast.Attribute):
                names.append(t.attr)
            else:
                raise Unsupported("except clause type", h)
        return names

    def st_Delete(self, n, st):
        raise Unsupported("del", n)

    def st_Global(self, n, st):
        raise Unsupported("global", n)

    def st_Nonlocal(self, n, st):
        raise Unsupported("nonlocal", n)

    # ------------------------------------------------------------------ loops
    def loop_id_of(self, node, st):
        fk = st.ghost.get("fn_key") or self.cur_fn
        return fk, self.loop_ids.get(id(node))

    def index_loops(self, fnode):
        k = 0
        for x in ast.walk(fnode):
            pass
        # preorder numbering of For/While in source order
        loops = [x for x in ast.walk(fnode) if isinstance(x, (ast.For, ast.While))]
        loops.sort(key=lambda x: (x.lineno, x.col_offset))
        for i, x in enumerate(loops):
            self.loop_ids[id(x)] = i

    def loop_spec(self, node, st) -> LoopSpec | None:
        fk, lid = self.loop_id_of(node, st)
        c = self.reg.get(fk) if fk else None
        if c is None or lid is None:
            return None
        spec = c.loops.get(lid)
        if spec is None:
            return None
        if spec.fingerprint is not None:
            head = ast.unparse(node.iter) if isinstance(node, ast.For) else ast.unparse(node.test)
            tgt = ast.unparse(node.target) + " in " if isinstance(node, ast.For) else ""
            actual = (tgt + head)
            norm = lambda x: x.replace(" ", "").replace("(", "").replace(")", "")
            if norm(spec.fingerprint) not in (norm(actual), norm(head)):
                raise Drift(f"loop {lid} header changed: expected '{spec.fingerprint}', found '{actual}'", node)
        return spec

    def st_For(self, n, st):
        from .loops import exec_for
        return exec_for(self, n, st)

    def st_While(self, n, st):
        from .loops import exec_while
        return exec_while(self, n, st)

    # ------------------------------------------------------------------ verification of one function
    def verify(self, key: str):
        from .verify import verify_function
        return verify_function(self, key)


class DeadPath(Exception):
    pass


class VOpaque(V):
    def __init__(self, t, typ=TAny):
        self.t = t
        self.typ = typ

    def __repr__(self):
        return f"VOpaque({self.t})"


class VOpt(V):
    """Optional scalar (str/int/bool/real): `none` is a z3 Bool, `inner` the value when present."""

    def __init__(self, none, inner):
        self.none = none
        self.inner = inner
        self.typ = TOpt(inner.typ)

    def __repr__(self):
        return f"VOpt({self.none},{self.inner})"


def scalar_opt(t: T):
    return t.kind == "opt" and t.args[0].kind in ("str", "int", "bool", "real")


class VSet(V):
    def __init__(self, ref, elem: T):
        self.ref = ref
        self.elem = elem
        self.typ = T("set", (elem,))
        self.nullable = False


class VLine(V):
    """A line number typed as an abstract totally ordered sort (C04-E genericity)."""

    def __init__(self, t):
        self.t = t
        self.typ = T("line")
