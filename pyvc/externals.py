"""Models of external libraries (trusted base). Each model is deliberately shallow:

* rich (Style/Text/Console/Table/print): constructors record their arguments; output methods append to the
  ghost output trace. What Rich renders from them is assumed.
* typer.Exit: an exception carrying `code`.
* math.ceil/floor: exact on reals.
* everything touching the OS, Pygments, pathspec, json, hashlib is given a may-raise contract in
  contracts/externals.py through `B.externals[...]` entries (installed by the sidecars).
"""
from __future__ import annotations

import ast

import z3
from .values import FA

from .values import *
from .pytypes import *
from . import engine as E

# dotted name -> ('ctor', kind) | ('builtin', name) | ('exc', name) | ('module', name) | ('fn', handler)
TABLE = {
    "rich.style.Style": ("ctor", "Style"),
    "rich.text.Text": ("ctor", "Text"),
    "rich.console.Console": ("ctor", "Console"),
    "rich.table.Table": ("ctor", "Table"),
    "rich.live.Live": ("ctor", "Live"),
    "rich.print": ("builtin", "print"),
    "rich.box": ("module", "rich.box"),
    "rich": ("module", "rich"),
    "math.ceil": ("builtin", "ceil"),
    "math.floor": ("builtin", "floor"),
    "typer": ("module", "typer"),
    "typer.Exit": ("exc", "Exit"),
    "os": ("module", "os"),
    "os.path": ("module", "os.path"),
    "os.getcwd": ("fn", "os.getcwd"),
    "os.path.sep": ("const", "/"), "os.sep": ("const", "/"),
    "os.path.relpath": ("fn", "os.path.relpath"),
    "os.path.join": ("fn", "os.path.join"),
    "logging": ("module", "logging"),
    "logging.info": ("noop", None), "logging.debug": ("noop", None), "logging.warning": ("noop", None), "logging.error": ("noop", None),
    "copy.deepcopy": ("fn", "deepcopy"),
    "pygments.util.ClassNotFound": ("exc", "ClassNotFound"),
    "json.JSONDecodeError": ("exc", "JSONDecodeError"),
    "typing.Optional": ("type", "Optional"),
    "pathlib.Path": ("ctor", "Path"),
    "pygments.token.Keyword": ("toktype", "Keyword"),
    "pygments.token.Text": ("toktype", "Text"),
    "pygments.token.Whitespace": ("toktype", "Whitespace"),
    "pygments.token.Comment": ("toktype", "Comment"),
    "pygments.token.Punctuation": ("toktype", "Punctuation"),
    "pygments.token.Operator": ("toktype", "Operator"),
    "pygments.token.Name": ("toktype", "Name"),
}

OUTPUT_METHODS = {
    "Console": {"print", "log", "rule"},
    "Table": {"add_row", "add_column"},
    "Text": {"append"},
    "Live": {"update", "stop", "refresh", "start"},
}


# (kind, member) -> dict(ret=type string, attr=bool, raises={Exc: None}, pure=True)
SIGS = {
    ("Path", "parents"): dict(ret="ext:PathParents", attr=True),
    ("Path", "name"): dict(ret="str", attr=True),
    ("Path", "absolute"): dict(ret="ext:Path"),
    ("Path", "resolve"): dict(ret="ext:Path"),
    ("Path", "joinpath"): dict(ret="ext:Path"),
    ("Path", "is_absolute"): dict(ret="bool"),
    ("Path", "is_file"): dict(ret="bool", fs=True),
    ("Path", "is_dir"): dict(ret="bool", fs=True),
    ("Path", "exists"): dict(ret="bool", fs=True),
    ("Path", "relative_to"): dict(ret="ext:Path", raises={"ValueError": None}),
    ("Path", "read_text"): dict(ret="str", fs=True, raises={"OSError": None, "UnicodeDecodeError": None}),
    ("Path", "write_text"): dict(ret="int", fs=True, effect=True),
    ("Path", "mkdir"): dict(ret="None", fs=True, effect=True),
    ("PathParents", "__contains__"): dict(ret="bool"),
    ("PathSpec", "match_file"): dict(ret="bool"),
    ("Lexer", "__class__"): dict(ret="ext:LexerClass", attr=True),
    ("LexerClass", "name"): dict(ret="str", attr=True),
}

FUNS = {
    "os.getcwd": dict(ret="str", fs=True),
    "os.path.relpath": dict(ret="str"),
    "os.path.join": dict(ret="str"),
    "pathlib.Path.cwd": dict(ret="ext:Path", fs=True),
    "pathlib.Path": dict(ret="ext:Path"),
}


def install(B):
    B.ext_sigs = dict(SIGS)
    B.ext_funs = dict(FUNS)
    B.ext_table = dict(TABLE)
    B.ext_fns = {}      # dotted name -> python handler(B, st, args, kwargs, node)
    B.ext_meths = {}    # (kind, method) -> handler(B, st, base, args, kwargs, node)
    install_io(B)


def external_value(B, st, dotted, node):
    ent = B.ext_table.get(dotted)
    if ent is None:
        if dotted in B.ext_fns:
            return VFunc("extfn", name=dotted)
        # unknown external: an opaque callable/module; calling it is unsupported unless a model exists
        return VModule(dotted, external=True)
    kind, x = ent
    if kind == "ctor":
        if dotted == "pathlib.Path":
            return st.new_ext("PathClass", {})
        return VFunc("extfn", name=dotted)
    if kind == "builtin":
        return VFunc("builtin", name=x)
    if kind == "exc":
        return VType(x)
    if kind == "module":
        return VModule(x, external=True)
    if kind == "fn":
        return VFunc("extfn", name=dotted)
    if kind == "type":
        return VType(x)
    if kind == "toktype":
        return toktype_value(B, st, x)
    if kind == "noop":
        return VFunc("extfn", name="$noop")
    if kind == "const":
        B.eng.used_assumptions.add("POSIX path separator '/' (os.path.sep)")
        return VStr(x)
    raise E.Unsupported(f"external {dotted}", node)


# --- pygments token types: an abstract tree; `t in Keyword` is membership in the subtree rooted at Keyword.
TOK_ROOTS = ["Keyword", "Text", "Whitespace", "Comment", "Punctuation", "Operator", "Name"]


def toktype_value(B, st, name):
    v = VExt("TokTypeConst", 9000 + TOK_ROOTS.index(name))
    c = z3.Function("tok_const", z3.IntSort(), z3.IntSort())
    st.ext[v.ident] = {"$name": name, "$term": c(z3.IntVal(v.ident))}
    ensure_tok_axioms(B)
    return v


def tok_in(B, st, x, root_name):
    """`x in <Root>`: uninterpreted subtree membership with the disjointness axiom (trusted, validated)."""
    f = z3.Function("tok_in_" + root_name, z3.IntSort(), z3.BoolSort())
    t = tok_term(B, st, x)
    ensure_tok_axioms(B)
    return f(t)


def tok_term(B, st, x):
    if isinstance(x, E.VOpaque):
        return x.t
    if isinstance(x, VExt):
        return B.eng.ext_term(st, x)
    raise E.Unsupported(f"token type value {x!r}")


def ensure_tok_axioms(B):
    if getattr(B, "_tok_axioms", False):
        return
    B._tok_axioms = True
    eng = B.eng
    t = z3.Int("tt!")
    fs = {r: z3.Function("tok_in_" + r, z3.IntSort(), z3.BoolSort()) for r in TOK_ROOTS}
    c = z3.Function("tok_const", z3.IntSort(), z3.IntSort())
    # pairwise disjoint subtrees, except that Whitespace is a subtype of Text (Token.Text.Whitespace)
    roots = ["Keyword", "Text", "Comment", "Punctuation", "Operator", "Name"]
    for i, a in enumerate(roots):
        for b in roots[i + 1:]:
            eng.axioms.append(FA([t], z3.Not(z3.And(fs[a](t), fs[b](t))), patterns=[fs[a](t)]))
            eng.axioms.append(FA([t], z3.Not(z3.And(fs[a](t), fs[b](t))), patterns=[fs[b](t)]))
    eng.axioms.append(FA([t], z3.Implies(fs["Whitespace"](t), fs["Text"](t)), patterns=[fs["Whitespace"](t)]))
    # each root constant belongs to its own subtree; Text itself is not in Whitespace
    for r in TOK_ROOTS:
        k = c(z3.IntVal(9000 + TOK_ROOTS.index(r)))
        eng.axioms.append(fs[r](k))
    eng.axioms.append(z3.Not(fs["Whitespace"](c(z3.IntVal(9000 + TOK_ROOTS.index("Text"))))))
    for i, a in enumerate(TOK_ROOTS):
        for b in TOK_ROOTS[i + 1:]:
            eng.axioms.append(c(z3.IntVal(9000 + i)) != c(z3.IntVal(9000 + TOK_ROOTS.index(b))))
    eng.used_assumptions.add("pygments token types: the subtrees Keyword, Text, Comment, Punctuation, Operator, Name are "
                             "pairwise disjoint; Whitespace is a subtype of Text; str(type) is injective")


def ext_contains(B, st, c, x, node):
    if c.kind == "TokTypeConst":
        return tok_in(B, st, x, st.ext_attrs(c)["$name"])
    sig = B.ext_sigs.get((c.kind, "__contains__"))
    if sig is not None:
        return uninterp(B, st, f"{c.kind}.__contains__", [c, x], "bool", node).t
    h = B.ext_meths.get((c.kind, "__contains__"))
    if h:
        return h(B, st, c, [x], {}, node)
    raise E.Unsupported(f"membership in external {c.kind}", node)


def uninterp(B, st, fname, args, ret, node, raises=None, fs=False, effect=False):
    """Result of a pure external: an uninterpreted function of its arguments (file-system reads are
    additionally indexed by a ghost file-system version, bumped by effectful externals)."""
    eng = B.eng
    terms = []
    for a in args:
        if isinstance(a, VCList):
            a = eng.materialize(st, a)
        if isinstance(a, VNone):
            terms.append(z3.IntVal(0))
        elif isinstance(a, VTuple):
            terms.append(eng.unwrap(st, a))
        elif isinstance(a, E.VOpt):
            terms.append(a.inner.t)
        else:
            terms.append(eng.unwrap(st, a))
    if fs:
        terms.append(st.ghost.get("fs_version", z3.IntVal(0)))
    if raises and not st.spec_mode:
        names = list(raises)
        k = eng.choose(st, len(names) + 1)
        if k > 0:
            raise E.PyRaise(VExc(names[k - 1], ()), node)
    if effect:
        st.ghost = dict(st.ghost)
        st.ghost["fs_version"] = st.fresh("fsv", z3.IntSort())
    rt = parse_type(ret)
    if rt.kind == "none":
        return VNone()
    safe = "".join(ch if ch.isalnum() else "_" for ch in fname)
    f = z3.Function("x_" + safe + f"_{len(terms)}", *[t.sort() for t in terms], sort_of(rt))
    term = f(*terms) if terms else z3.Const("x_" + safe, sort_of(rt))
    v = eng.wrap(st, term, rt)
    B.eng.used_assumptions.add(f"external {fname}: deterministic function of its arguments" + (" and the file system" if fs else ""))
    return v


def call_external(B, st, name, args, kwargs, node):
    if name == "$noop":
        return VNone()
    if name in B.ext_fns:
        return B.ext_fns[name](B, st, args, kwargs, node)
    if name in B.ext_funs:
        sig = B.ext_funs[name]
        return uninterp(B, st, name, list(args) + [kwargs[k] for k in sorted(kwargs)], sig["ret"], node,
                        sig.get("raises"), sig.get("fs", False), sig.get("effect", False))
    ent = B.ext_table.get(name)
    if ent and ent[0] == "ctor":
        kind = ent[1]
        attrs = dict(kwargs)
        attrs["$args"] = VTuple(args)
        v = st.new_ext(kind, attrs)
        if kind == "Text":
            st.ext_set(v, "$parts", ())
            if args:
                st.ext_set(v, "$str", args[0] if isinstance(args[0], VStr) else B.to_str(st, args[0], node))
            if "style" not in kwargs:
                st.ext_set(v, "style", args[1] if len(args) > 1 else VStr(""))
        return v
    if ent and ent[0] == "fn" and ent[1] == "deepcopy":
        return deepcopy_model(B, st, args[0], node)
    raise E.Unsupported(f"call of external {name}", node)


def deepcopy_model(B, st, v, node):
    raise E.Unsupported("deepcopy of symbolic object (only supported on concrete structures)", node)


def call_external_obj(B, st, fv, args, kwargs, node):
    if fv.kind == "PathClass":
        return uninterp(B, st, "pathlib.Path", list(args), "ext:Path", node)
    raise E.Unsupported(f"call of external object {fv!r}", node)


def ext_method(B, st, base, name, args, kwargs, node):
    h = B.ext_meths.get((base.kind, name))
    if h:
        return h(B, st, base, args, kwargs, node)
    sig = B.ext_sigs.get((base.kind, name))
    if sig is not None and not sig.get("attr"):
        return uninterp(B, st, f"{base.kind}.{name}", [base] + list(args) + [kwargs[k] for k in sorted(kwargs)],
                        sig["ret"], node, sig.get("raises"), sig.get("fs", False), sig.get("effect", False))
    if name in OUTPUT_METHODS.get(base.kind, ()):
        st.trace.append(Event(base, name, list(args), dict(kwargs), getattr(node, "lineno", 0)))
        if base.kind == "Text" and name == "append":
            parts = st.ext_attrs(base).get("$parts", ())
            st.ext_set(base, "$parts", parts + ((args[0], kwargs.get("style", args[1] if len(args) > 1 else VNone())),))
        return VNone()
    if base.kind == "PathClass" and name == "cwd":
        return uninterp(B, st, "pathlib.Path.cwd", [], "ext:Path", node, fs=True)
    if base.kind == "Text" and name == "assemble":
        v = st.new_ext("Text", {"$parts": tuple(args)})
        return v
    raise E.Unsupported(f"method {name} of external {base.kind}", node)


def ext_binop(B, st, op, a, b, node):
    raise E.Unsupported("operator on external object", node)


def ext_subscript(B, st, base, idx, node):
    h = B.ext_meths.get((base.kind, "__getitem__"))
    if h:
        return h(B, st, base, [idx], {}, node)
    raise E.Unsupported(f"subscript of external {base.kind}", node)


def enter_context(B, st, cm, item, node):
    if isinstance(cm, VExt):
        h = B.ext_meths.get((cm.kind, "__enter__"))
        if h:
            return h(B, st, cm, [], {}, node)
        return cm
    raise E.Unsupported("with on non-external", node)


def call_with_dynamic_kwargs(B, st, fv, args, dv, node):
    raise E.Unsupported("call with **symbolic", node)


def opaque_method(B, st, base, name, args, kwargs, node):
    h = B.ext_meths.get(("opaque", name))
    if h:
        return h(B, st, base, args, kwargs, node)
    raise E.Unsupported(f"method {name} on opaque value", node)


def opaque_subscript(B, st, base, idx, node):
    h = B.ext_meths.get(("opaque", "__getitem__"))
    if h:
        return h(B, st, base, [idx], {}, node)
    raise E.Unsupported("subscript on opaque value", node)


# ------------------------------------------------------------------------------------------------
# I/O externals with may-raise contracts (trusted base; see DESIGN.md §4)
def _h_get_lexer_for_filename(B, st, args, kwargs, node):
    """pygments.lexers.get_lexer_for_filename(name): a lexer chosen from the file name, or ClassNotFound."""
    return uninterp(B, st, "pygments.get_lexer_for_filename", [args[0]], "ext:Lexer", node, raises={"ClassNotFound": None})


def _h_open(B, st, args, kwargs, node):
    mode = args[1] if len(args) > 1 else kwargs.get("mode", VStr("r"))
    enc = kwargs.get("encoding", VNone())
    f = st.new_ext("File", {"path": args[0], "mode": mode, "encoding": enc})
    return f


def _h_file_read(B, st, base, args, kwargs, node):
    a = st.ext_attrs(base)
    enc = a.get("encoding", VNone())
    mode = a.get("mode", VStr("r"))
    binary = isinstance(mode, VStr) and mode.concrete() is not None and "b" in mode.concrete()
    latin = isinstance(enc, VStr) and enc.concrete() in ("latin-1", "latin1", "iso-8859-1")
    if binary:
        return uninterp(B, st, "fs.read_bytes", [a["path"]], "ext:Bytes", node, fs=True)
    if latin:
        # every byte string decodes under Latin-1
        return uninterp(B, st, "fs.read_text_latin1", [a["path"]], "str", node, fs=True)
    # default (locale, here UTF-8) decoding fails on bytes that are not valid UTF-8
    B.eng.used_assumptions.add("open(path).read(): returns the decoded text or raises UnicodeDecodeError; no OSError (file exists, readable)")
    return uninterp(B, st, "fs.read_text_utf8", [a["path"]], "str", node, fs=True, raises={"UnicodeDecodeError": None})


def under_fns():
    wu = z3.Function("walk_under", z3.StringSort(), z3.IntSort(), z3.BoolSort())
    pu = z3.Function("path_under", z3.IntSort(), z3.IntSort(), z3.BoolSort())
    return wu, pu


def ensure_under_axioms(B):
    if getattr(B, "_under_ax", False):
        return
    B._under_ax = True
    wu, pu = under_fns()
    a, b = z3.String("ua!"), z3.String("ub!")
    t = z3.Int("ut!")
    join = z3.Function("x_os_path_join_2", z3.StringSort(), z3.StringSort(), z3.StringSort())
    pctor = z3.Function("x_pathlib_Path_1", z3.StringSort(), z3.IntSort())
    ax = B.eng.axioms
    ax.append(FA([a, b, t], z3.Implies(wu(a, t), wu(join(a, b), t)), patterns=[wu(join(a, b), t)]), keys={"walk_under", "path_under"})
    ax.append(FA([a, t], z3.Implies(wu(a, t), pu(pctor(a), t)), patterns=[pu(pctor(a), t)]), keys={"walk_under", "path_under"})
    B.eng.used_assumptions.add("os.walk(top) yields directories under top; os.path.join(dir, name) stays under top; "
                               "Path(p).relative_to(top) raises ValueError only if p is not under top")


def _h_relative_to(B, st, base, args, kwargs, node):
    eng = B.eng
    ensure_under_axioms(B)
    wu, pu = under_fns()
    ok = pu(eng.ext_term(st, base), eng.ext_term(st, args[0]))
    if not st.spec_mode:
        eng.require(st, ok, "ValueError", node, "relative_to: not in the subpath")
    return uninterp(B, st, "Path.relative_to", [base, args[0]], "ext:Path", node)


def _h_walk(B, st, args, kwargs, node):
    """os.walk(top): top-down protocol; yields (root, dirs, files) with fresh lists of non-empty names."""
    it = VIter("os.walk", TTuple(TStr, TList(TStr), TList(TStr)))
    it.n = st.fresh("walk_n", z3.IntSort())
    st.assume(it.n >= 0)
    wid = st.fresh("walk_id", z3.IntSort())

    ensure_under_axioms(B)
    top_term = B.eng.ext_term(st, args[0]) if isinstance(args[0], VExt) else z3.IntVal(0)

    def elem_at(eng, s, i):
        rootf = z3.Function("walk_root", z3.IntSort(), z3.IntSort(), z3.StringSort())
        s.assume(under_fns()[0](rootf(wid, i), top_term))
        dirs = eng.new_list(s, TStr, None, "walk_dirs")
        files = eng.new_list(s, TStr, None, "walk_files")
        return VTuple([VStr(rootf(wid, i)), dirs, files])

    it.elem_at = elem_at
    B.eng.used_assumptions.add("os.walk: top-down (root, dirs, files) protocol, pruning by in-place assignment to dirs")
    return it


def install_io(B):
    B.ext_fns["pygments.lexers.get_lexer_for_filename"] = _h_get_lexer_for_filename
    B.ext_fns["builtins.open"] = _h_open
    B.ext_fns["os.walk"] = _h_walk
    B.ext_meths[("File", "read")] = _h_file_read
    B.ext_meths[("Path", "relative_to")] = _h_relative_to
    B.ext_meths[("Lexer", "get_tokens_unprocessed")] = _h_get_tokens_unprocessed
    B.ext_meths[("File", "__enter__")] = lambda B, st, base, args, kwargs, node: base
    B.ext_table["os.walk"] = ("fn", "os.walk")
    B.ext_table["pygments.lexers.get_lexer_for_filename"] = ("fn", "get_lexer_for_filename")


def _h_get_tokens_unprocessed(B, st, base, args, kwargs, node):
    """Lexer contract LC (the part the proof uses): a finite sequence of (offset, type, text) with
    non-negative, non-decreasing offsets. Validated on the real lexers by the bounded check of C16."""
    eng = B.eng
    v = uninterp(B, st, "Lexer.get_tokens_unprocessed", [base] + list(args), "list[tuple[int,ext:TokType,str]]", node)
    n = eng.list_len(st, v)
    a, b = z3.Ints("lca! lcb!")
    t = parse_type("tuple[int,ext:TokType,str]")
    off = eng.tuple_proj(t, 0)
    arr = eng.list_arr(st, v)
    st.assume(FA([a], z3.Implies(z3.And(a >= 0, a < n), off(z3.Select(arr, a)) >= 0), patterns=[z3.Select(arr, a)]))
    st.assume(FA([a, b], z3.Implies(z3.And(a >= 0, a < b, b < n), off(z3.Select(arr, a)) <= off(z3.Select(arr, b))),
                 patterns=[z3.MultiPattern(z3.Select(arr, a), z3.Select(arr, b))]))
    eng.used_assumptions.add("lexer contract LC: get_tokens_unprocessed yields a finite sequence of (offset, type, text) with "
                             "non-negative, non-decreasing offsets")
    return v
