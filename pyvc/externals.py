"""Models of external libraries (trusted base). Each model is deliberately shallow:

* rich (Style/Text/Console/Table/print): constructors record their arguments; output methods append to the
  ghost output trace. What Rich renders from them is assumed.
* typer.Exit: an exception carrying `code`.
* math.ceil/floor: exact on reals.
* everything touching the OS, Pygments, pathspec, json, hashlib is given a may-raise contract in
  contracts/externals.py through `B.externals[...]` entries (installed by the sidecars).
"""
from __future__ import annotations

import ast

import z3

from .values import *
from .pytypes import *
from . import engine as E

# dotted name -> ('ctor', kind) | ('builtin', name) | ('exc', name) | ('module', name) | ('fn', handler)
TABLE = {
    "rich.style.Style": ("ctor", "Style"),
    "rich.text.Text": ("ctor", "Text"),
    "rich.console.Console": ("ctor", "Console"),
    "rich.table.Table": ("ctor", "Table"),
    "rich.live.Live": ("ctor", "Live"),
    "rich.print": ("builtin", "print"),
    "rich.box": ("module", "rich.box"),
    "rich": ("module", "rich"),
    "math.ceil": ("builtin", "ceil"),
    "math.floor": ("builtin", "floor"),
    "typer": ("module", "typer"),
    "typer.Exit": ("exc", "Exit"),
    "os": ("module", "os"),
    "os.path": ("module", "os.path"),
    "logging": ("module", "logging"),
    "copy.deepcopy": ("fn", "deepcopy"),
    "pygments.util.ClassNotFound": ("exc", "ClassNotFound"),
    "json.JSONDecodeError": ("exc", "JSONDecodeError"),
    "typing.Optional": ("type", "Optional"),
    "pathlib.Path": ("ctor", "Path"),
    "pygments.token.Keyword": ("toktype", "Keyword"),
    "pygments.token.Text": ("toktype", "Text"),
    "pygments.token.Whitespace": ("toktype", "Whitespace"),
    "pygments.token.Comment": ("toktype", "Comment"),
    "pygments.token.Punctuation": ("toktype", "Punctuation"),
    "pygments.token.Operator": ("toktype", "Operator"),
    "pygments.token.Name": ("toktype", "Name"),
}

OUTPUT_METHODS = {
    "Console": {"print", "log", "rule"},
    "Table": {"add_row", "add_column"},
    "Text": {"append"},
    "Live": {"update", "stop", "refresh", "start"},
}


def install(B):
    B.ext_table = dict(TABLE)
    B.ext_fns = {}      # dotted name -> python handler(B, st, args, kwargs, node)
    B.ext_meths = {}    # (kind, method) -> handler(B, st, base, args, kwargs, node)


def external_value(B, st, dotted, node):
    ent = B.ext_table.get(dotted)
    if ent is None:
        if dotted in B.ext_fns:
            return VFunc("extfn", name=dotted)
        # unknown external: an opaque callable/module; calling it is unsupported unless a model exists
        return VModule(dotted, external=True)
    kind, x = ent
    if kind == "ctor":
        return VFunc("extfn", name=dotted)
    if kind == "builtin":
        return VFunc("builtin", name=x)
    if kind == "exc":
        return VType(x)
    if kind == "module":
        return VModule(x, external=True)
    if kind == "fn":
        return VFunc("extfn", name=dotted)
    if kind == "type":
        return VType(x)
    if kind == "toktype":
        return toktype_value(B, st, x)
    raise E.Unsupported(f"external {dotted}", node)


# --- pygments token types: an abstract tree; `t in Keyword` is membership in the subtree rooted at Keyword.
TOK_ROOTS = ["Keyword", "Text", "Whitespace", "Comment", "Punctuation", "Operator", "Name"]


def toktype_value(B, st, name):
    v = VExt("TokTypeConst", 9000 + TOK_ROOTS.index(name))
    st.ext[v.ident] = {"$name": name}
    return v


def tok_in(B, st, x, root_name):
    """`x in <Root>`: uninterpreted subtree membership with the disjointness axiom (trusted, validated)."""
    f = z3.Function("tok_in_" + root_name, z3.IntSort(), z3.BoolSort())
    t = tok_term(B, st, x)
    ensure_tok_axioms(B)
    return f(t)


def tok_term(B, st, x):
    if isinstance(x, E.VOpaque):
        return x.t
    if isinstance(x, VExt) and x.kind == "TokTypeConst":
        c = z3.Function("tok_const", z3.IntSort(), z3.IntSort())
        return c(z3.IntVal(x.ident))
    raise E.Unsupported(f"token type value {x!r}")


def ensure_tok_axioms(B):
    if getattr(B, "_tok_axioms", False):
        return
    B._tok_axioms = True
    eng = B.eng
    t = z3.Int("tt!")
    fs = {r: z3.Function("tok_in_" + r, z3.IntSort(), z3.BoolSort()) for r in TOK_ROOTS}
    c = z3.Function("tok_const", z3.IntSort(), z3.IntSort())
    # pairwise disjoint subtrees, except that Whitespace is a subtype of Text (Token.Text.Whitespace)
    roots = ["Keyword", "Text", "Comment", "Punctuation", "Operator", "Name"]
    for i, a in enumerate(roots):
        for b in roots[i + 1:]:
            eng.axioms.append(z3.ForAll([t], z3.Not(z3.And(fs[a](t), fs[b](t))), patterns=[fs[a](t)]))
            eng.axioms.append(z3.ForAll([t], z3.Not(z3.And(fs[a](t), fs[b](t))), patterns=[fs[b](t)]))
    eng.axioms.append(z3.ForAll([t], z3.Implies(fs["Whitespace"](t), fs["Text"](t)), patterns=[fs["Whitespace"](t)]))
    # each root constant belongs to its own subtree; Text itself is not in Whitespace
    for r in TOK_ROOTS:
        k = c(z3.IntVal(9000 + TOK_ROOTS.index(r)))
        eng.axioms.append(fs[r](k))
    eng.axioms.append(z3.Not(fs["Whitespace"](c(z3.IntVal(9000 + TOK_ROOTS.index("Text"))))))
    for i, a in enumerate(TOK_ROOTS):
        for b in TOK_ROOTS[i + 1:]:
            eng.axioms.append(c(z3.IntVal(9000 + i)) != c(z3.IntVal(9000 + TOK_ROOTS.index(b))))
    eng.used_assumptions.add("pygments token types: the subtrees Keyword, Text, Comment, Punctuation, Operator, Name are "
                             "pairwise disjoint; Whitespace is a subtype of Text; str(type) is injective")


def ext_contains(B, st, c, x, node):
    if c.kind == "TokTypeConst":
        return tok_in(B, st, x, st.ext_attrs(c)["$name"])
    h = B.ext_meths.get((c.kind, "__contains__"))
    if h:
        return h(B, st, c, [x], {}, node)
    raise E.Unsupported(f"membership in external {c.kind}", node)


def call_external(B, st, name, args, kwargs, node):
    if name in B.ext_fns:
        return B.ext_fns[name](B, st, args, kwargs, node)
    ent = B.ext_table.get(name)
    if ent and ent[0] == "ctor":
        kind = ent[1]
        attrs = dict(kwargs)
        attrs["$args"] = VTuple(args)
        v = st.new_ext(kind, attrs)
        if kind == "Text":
            st.ext_set(v, "$parts", ())
            if args:
                st.ext_set(v, "$str", args[0] if isinstance(args[0], VStr) else B.to_str(st, args[0], node))
            if "style" not in kwargs:
                st.ext_set(v, "style", args[1] if len(args) > 1 else VStr(""))
        st.trace.append(Event(v, "__init__", list(args), dict(kwargs), getattr(node, "lineno", 0)))
        return v
    if ent and ent[0] == "fn" and ent[1] == "deepcopy":
        return deepcopy_model(B, st, args[0], node)
    raise E.Unsupported(f"call of external {name}", node)


def deepcopy_model(B, st, v, node):
    raise E.Unsupported("deepcopy of symbolic object (only supported on concrete structures)", node)


def call_external_obj(B, st, fv, args, kwargs, node):
    raise E.Unsupported(f"call of external object {fv!r}", node)


def ext_method(B, st, base, name, args, kwargs, node):
    h = B.ext_meths.get((base.kind, name))
    if h:
        return h(B, st, base, args, kwargs, node)
    if name in OUTPUT_METHODS.get(base.kind, ()):
        st.trace.append(Event(base, name, list(args), dict(kwargs), getattr(node, "lineno", 0)))
        if base.kind == "Text" and name == "append":
            parts = st.ext_attrs(base).get("$parts", ())
            st.ext_set(base, "$parts", parts + ((args[0], kwargs.get("style", args[1] if len(args) > 1 else VNone())),))
        return VNone()
    if base.kind == "Text" and name == "assemble":
        v = st.new_ext("Text", {"$parts": tuple(args)})
        return v
    raise E.Unsupported(f"method {name} of external {base.kind}", node)


def ext_binop(B, st, op, a, b, node):
    raise E.Unsupported("operator on external object", node)


def ext_subscript(B, st, base, idx, node):
    h = B.ext_meths.get((base.kind, "__getitem__"))
    if h:
        return h(B, st, base, [idx], {}, node)
    raise E.Unsupported(f"subscript of external {base.kind}", node)


def enter_context(B, st, cm, item, node):
    if isinstance(cm, VExt):
        h = B.ext_meths.get((cm.kind, "__enter__"))
        if h:
            return h(B, st, cm, [], {}, node)
        return cm
    raise E.Unsupported("with on non-external", node)


def call_with_dynamic_kwargs(B, st, fv, args, dv, node):
    raise E.Unsupported("call with **symbolic", node)


def opaque_method(B, st, base, name, args, kwargs, node):
    h = B.ext_meths.get(("opaque", name))
    if h:
        return h(B, st, base, args, kwargs, node)
    raise E.Unsupported(f"method {name} on opaque value", node)


def opaque_subscript(B, st, base, idx, node):
    h = B.ext_meths.get(("opaque", "__getitem__"))
    if h:
        return h(B, st, base, [idx], {}, node)
    raise E.Unsupported("subscript on opaque value", node)
