"""Frame obligations over global state, decided on the AST of the real code (no solver needed).

A function's result can depend on history only through state that outlives the call. For the functions reachable from the
given roots we establish, syntactically and therefore for all inputs:

  no-global-write    the function has no `global`/`nonlocal` statement, does not assign to / delete / augment a module-level
                     name, an attribute or item of a module-level object or of a class object, and does not call a mutating
                     method (append, extend, insert, pop, remove, clear, update, setdefault, add, discard, sort, reverse,
                     popitem, __setitem__, __delitem__) on such an object; it is not wrapped in a caching decorator and has
                     no mutable default argument
  no-ambient-input   the function does not call hash(), id(), random.*, time.*, datetime.now, uuid.*, os.environ, os.getpid,
                     and does not iterate over a set (whose order depends on the hash seed)

Reachability: calls through a name resolve to the repository function / class of that name; calls through an attribute
(x.m(...)) resolve to every repository method or function named m (over-approximation of dynamic dispatch).

What this does not cover (stated in the evidence): state kept by Pygments, pathspec, the interpreter; the contents of the file
system; objects passed in by the caller."""
from __future__ import annotations

import ast

MUTATORS = {"append", "extend", "insert", "pop", "remove", "clear", "update", "setdefault", "add", "discard", "sort", "reverse",
            "popitem", "__setitem__", "__delitem__", "appendleft", "move_to_end"}
CACHE_DECOS = {"lru_cache", "cache", "cached_property", "memoize"}
AMBIENT_CALLS = {"hash", "id", "getpid"}
AMBIENT_MODULES = {"random", "time", "uuid", "secrets"}


def _root_name(e):
    while isinstance(e, (ast.Attribute, ast.Subscript)):
        e = e.value
    return e.id if isinstance(e, ast.Name) else None


class FnFacts:
    def __init__(self, fi, repo):
        self.fi = fi
        self.writes = []     # (line, what)
        self.ambient = []
        self.calls_by_name = set()
        self.calls_by_attr = set()
        node = fi.node
        mod = repo.modules[fi.module]
        params = {a.arg for a in node.args.args + node.args.kwonlyargs + node.args.posonlyargs}
        if node.args.vararg:
            params.add(node.args.vararg.arg)
        if node.args.kwarg:
            params.add(node.args.kwarg.arg)
        local = set(params)
        for n in ast.walk(node):
            if isinstance(n, ast.Name) and isinstance(n.ctx, ast.Store):
                local.add(n.id)
            elif isinstance(n, (ast.FunctionDef, ast.AsyncFunctionDef, ast.ClassDef)) and n is not node:
                local.add(n.name)
            elif isinstance(n, ast.ExceptHandler) and n.name:
                local.add(n.name)
            elif isinstance(n, ast.alias):
                local.add((n.asname or n.name).split(".")[0])
        declared_global = set()
        for n in ast.walk(node):
            if isinstance(n, (ast.Global, ast.Nonlocal)):
                declared_global |= set(n.names)
                self.writes.append((n.lineno, f"{type(n).__name__.lower()} {', '.join(n.names)}"))
        local -= declared_global

        def is_global_obj(e):
            """expression rooted at a module-level name (module, class, function or module variable), not a local"""
            r = _root_name(e)
            if r is None or r in local:
                return None
            if r in ("self", "cls"):
                return None
            return r

        for d in node.decorator_list:
            dn = d.func if isinstance(d, ast.Call) else d
            nm = dn.attr if isinstance(dn, ast.Attribute) else getattr(dn, "id", "")
            if nm in CACHE_DECOS:
                self.writes.append((node.lineno, f"caching decorator @{nm}"))
        for dflt in list(node.args.defaults) + [d for d in node.args.kw_defaults if d is not None]:
            if isinstance(dflt, (ast.List, ast.Dict, ast.Set)) or (isinstance(dflt, ast.Call) and getattr(dflt.func, "id", "") in ("list", "dict", "set")):
                self.writes.append((node.lineno, "mutable default argument"))
        # `cls.x = ...` inside a classmethod writes class state
        is_cm = fi.cls is not None and any(getattr(d, "id", "") == "classmethod" for d in node.decorator_list)
        for n in ast.walk(node):
            targets = []
            if isinstance(n, ast.Assign):
                targets = n.targets
            elif isinstance(n, (ast.AugAssign, ast.AnnAssign)):
                targets = [n.target]
            elif isinstance(n, ast.Delete):
                targets = n.targets
            for t in targets:
                for tt in (t.elts if isinstance(t, (ast.Tuple, ast.List)) else [t]):
                    if isinstance(tt, (ast.Attribute, ast.Subscript)):
                        r = is_global_obj(tt)
                        if r is not None:
                            self.writes.append((n.lineno, f"assignment to {ast.unparse(tt)} (rooted at module-level name {r})"))
                        if is_cm and _root_name(tt) == "cls":
                            self.writes.append((n.lineno, f"assignment to class state {ast.unparse(tt)}"))
                    elif isinstance(tt, ast.Name) and tt.id in declared_global:
                        self.writes.append((n.lineno, f"assignment to global {tt.id}"))
            if isinstance(n, ast.Call):
                f = n.func
                if isinstance(f, ast.Name):
                    self.calls_by_name.add(f.id)
                    if f.id in AMBIENT_CALLS and f.id not in local:
                        self.ambient.append((n.lineno, f"{f.id}()"))
                elif isinstance(f, ast.Attribute):
                    self.calls_by_attr.add(f.attr)
                    r = _root_name(f.value)
                    if f.attr in MUTATORS:
                        g = is_global_obj(f.value)
                        if g is not None and not (g in mod.imports and mod.imports[g][1] is None):
                            self.writes.append((n.lineno, f"{ast.unparse(f)}(...) mutates an object rooted at module-level name {g}"))
                        if is_cm and r == "cls":
                            self.writes.append((n.lineno, f"{ast.unparse(f)}(...) mutates class state"))
                    if r in AMBIENT_MODULES and r not in local:
                        self.ambient.append((n.lineno, f"{ast.unparse(f)}()"))
                    if f.attr in ("now", "today", "utcnow") and r in ("datetime", "date"):
                        self.ambient.append((n.lineno, f"{ast.unparse(f)}()"))
            if isinstance(n, ast.Attribute) and n.attr == "environ" and _root_name(n) == "os":
                self.ambient.append((n.lineno, "os.environ"))
            if isinstance(n, (ast.For, ast.comprehension)):
                it = n.iter
                if isinstance(it, ast.Set) or isinstance(it, ast.SetComp) or \
                        (isinstance(it, ast.Call) and getattr(it.func, "id", "") in ("set", "frozenset")):
                    self.ambient.append((getattr(n, "lineno", getattr(it, "lineno", 0)), f"iteration over a set: {ast.unparse(it)[:60]}"))


def reachable(repo, roots):
    """keys of the repository functions reachable from the root keys"""
    by_attr = {}
    for m in repo.modules.values():
        for f in m.funcs.values():
            by_attr.setdefault(f.node.name, []).append(f)
        for c in m.classes.values():
            for f in c.methods.values():
                by_attr.setdefault(f.node.name, []).append(f)
    facts, work = {}, [repo.func(k) for k in roots]
    while work:
        fi = work.pop()
        if fi.key in facts:
            continue
        ff = FnFacts(fi, repo)
        facts[fi.key] = ff
        for nm in ff.calls_by_name:
            r = repo.resolve(fi.module, nm)
            if r and r[0] == "func":
                work.append(r[1])
            elif r and r[0] == "class":
                for mn in ("__init__", "__post_init__", "__new__"):
                    for c in r[1].mro():
                        if not isinstance(c, str) and mn in c.methods:
                            work.append(c.methods[mn])
        for nm in ff.calls_by_attr:
            work.extend(by_attr.get(nm, []))
        # operators and protocols used implicitly
        for nm in ("__eq__", "__lt__", "__hash__", "__str__", "__repr__", "__iter__", "__len__", "__getitem__", "__contains__", "__deepcopy__", "__copy__"):
            for f in by_attr.get(nm, []):
                if f.key not in facts:
                    work.append(f)
    return facts


def obligations(eng, roots, prop):
    """Returns (obligations that hold, notes about the frame facts that could not be established)."""
    from .engine import Obligation
    import z3
    facts = reachable(eng.repo, roots)
    obs, notes = [], []
    for key in sorted(facts):
        ff = facts[key]
        for kind, bad in (("no-global-write", ff.writes), ("no-ambient-input", ff.ambient)):
            if bad:
                notes.append(f"frame:{kind}:{key} not established: " + "; ".join(f"line {ln}: {w}" for ln, w in bad[:3]))
                continue
            ob = Obligation(f"{key}::frame:{kind}", key, "frame", [], z3.BoolVal(True), ff.fi.node.lineno,
                            "touches no state that outlives the call" if kind == "no-global-write" else
                            "uses no hash-seed-, time- or process-dependent input",
                            result="valid", backend="syntactic-frame")
            obs.append(ob)
    return obs, notes, facts
