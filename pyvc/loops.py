"""Loops: complete unrolling over concrete structures, otherwise cut at the sidecar invariant.

Cut protocol (for a loop with invariant Inv, ghost index i for `for`):
  1. obligation  inv-entry      : Inv holds on entry (i = 0)
  2. discovery pass            : the body is executed once from a maximally havocked state to learn
                                  which variables, concrete lists and heap slots it can write
  3. havoc exactly those; assume Inv and the guard; execute the body once
  4. obligation  inv-preserve   : Inv holds after the body (i + 1)
  5. continue after the loop from Inv and not guard
Default invariant (no sidecar entry): True.
"""
from __future__ import annotations

import ast
import os
import sys

import z3
from .values import FA

from .values import *
from .pytypes import *


def _engine_types():
    from . import engine as E
    return E


def assigned_names(body):
    names = set()
    for st in body:
        for n in ast.walk(st):
            if isinstance(n, ast.Name) and isinstance(n.ctx, (ast.Store, ast.Del)):
                names.add(n.id)
            elif isinstance(n, (ast.FunctionDef, ast.ClassDef)):
                names.add(n.name)
    return names


def concrete_sequence(eng, st, v):
    """Return a python list of V if v has a concrete spine, else None."""
    if isinstance(v, VTuple):
        return list(v.items)
    if isinstance(v, VCList):
        return list(st.cl[v.id])
    if isinstance(v, VCSeq):
        return list(v.items)
    if isinstance(v, VList) and st.ghost.get("dyn"):
        # heap list of a concretely built object graph: concrete length and elements
        n = z3.simplify(z3.Select(st.lenmap(), v.ref))
        if z3.is_int_value(n) and 0 <= n.as_long() <= 64:
            arr = z3.Select(st.eltmap(sort_of(v.elem)), v.ref)
            return [eng.wrap(st, z3.simplify(z3.Select(arr, k)), v.elem) for k in range(n.as_long())]
    return None


class VCSeq(V):
    """Concrete sequence produced by range/enumerate/zip/items over concrete data."""

    def __init__(self, items):
        self.items = list(items)


def exec_for(eng, n: ast.For, st: State):
    E = _engine_types()
    if n.orelse:
        raise E.Unsupported("for/else", n)
    itv = eng.ev(n.iter, st)
    seq = concrete_sequence(eng, st, itv)
    spec = eng.loop_spec(n, st)
    if seq is not None and (spec is None or spec.unroll or not spec.invariant):
        return unroll(eng, n, st, seq)
    if seq is not None and isinstance(itv, VCList):
        itv = eng.materialize(st, itv)
    return cut_loop(eng, n, st, itv, spec)


def unroll(eng, n, st, seq):
    outs = []
    work = [(st, 0)]
    while work:
        s, k = work.pop()
        if k >= len(seq):
            outs.append((s, _E().NORMAL))
            continue
        s2 = s
        eng.assign(s2, n.target, seq[k], n)
        for s3, out in eng.run_block(n.body, s2):
            if out.kind in ("normal", "continue"):
                work.append((s3, k + 1))
            elif out.kind == "break":
                outs.append((s3, _E().NORMAL))
            else:
                outs.append((s3, out))
    return outs


def _E():
    from . import engine as E
    return E


class IterModel:
    """Uniform view of what a cut `for` iterates over: length term and element at symbolic index."""

    def __init__(self, eng, st, v, node):
        E = _E()
        self.v = v
        self.kind = None
        if isinstance(v, VList):
            self.kind = "list"
            self.n = eng.list_len(st, v)
        elif isinstance(v, VEnum):
            self.kind = "enum"
            self.inner = IterModel(eng, st, v.inner, node)
            self.n = self.inner.n
            self.start = v.start
        elif isinstance(v, VRange):
            self.kind = "range"
            self.n = z3.If(v.hi > v.lo, v.hi - v.lo, z3.IntVal(0))
        elif isinstance(v, VIter):
            self.kind = "iter"
            self.n = v.n
        elif isinstance(v, VStr):
            self.kind = "str"
            self.n = z3.Length(v.t)
        elif isinstance(v, VReversed):
            self.kind = "rev"
            self.inner = IterModel(eng, st, v.inner, node)
            self.n = self.inner.n
        elif isinstance(v, VDictView):
            self.kind = "dview"
            self.keys = eng.b.dict_keys_list(st, v.d)
            self.n = eng.list_len(st, self.keys)
        else:
            raise E.Unsupported(f"iteration over {v!r}", node)

    def elem(self, eng, st, i):
        v = self.v
        if self.kind == "list":
            return eng.list_get_raw(st, v, i)
        if self.kind == "enum":
            return VTuple([VInt(i + self.start), self.inner.elem(eng, st, i)])
        if self.kind == "range":
            return VInt(v.lo + i)
        if self.kind == "iter":
            return v.elem_at(eng, st, i)
        if self.kind == "str":
            return VStr(char_at(v.t, i))
        if self.kind == "rev":
            return self.inner.elem(eng, st, self.n - 1 - i)
        if self.kind == "dview":
            k = eng.list_get_raw(st, self.keys, i)
            if v.what == "keys":
                return k
            val = eng.b.dict_get_raw(st, v.d, k)
            if v.what == "values":
                return val
            return VTuple([k, val])

    def source_refs(self):
        if self.kind == "list":
            return [self.v.ref]
        if self.kind in ("enum", "rev"):
            return self.inner.source_refs()
        if self.kind == "dview":
            return [self.keys.ref]
        return []


class VEnum(V):
    def __init__(self, inner, start):
        self.inner = inner
        self.start = start


class VRange(V):
    def __init__(self, lo, hi):
        self.lo = lo
        self.hi = hi


class VReversed(V):
    def __init__(self, inner):
        self.inner = inner


class VDictView(V):
    def __init__(self, d, what):
        self.d = d
        self.what = what


def havoc_value(eng, st, v, name):
    """Fresh value of the same shape/type as v."""
    if isinstance(v, VInt):
        return VInt(st.fresh("hv_" + name, z3.IntSort()))
    if isinstance(v, VBool):
        return VBool(st.fresh("hv_" + name, z3.BoolSort()))
    if isinstance(v, VStr):
        return VStr(st.fresh("hv_" + name, z3.StringSort()))
    if isinstance(v, VReal):
        return VReal(st.fresh("hv_" + name, z3.RealSort()))
    if isinstance(v, VNone):
        return v
    if isinstance(v, VTuple):
        return VTuple([havoc_value(eng, st, it, name) for it in v.items])
    if isinstance(v, VObj):
        r = st.fresh("hv_" + name, z3.IntSort())
        nv = VObj(v.cls, r, v.nullable)
        eng.assume_wf(st, nv)
        return nv
    if isinstance(v, VList):
        r = st.fresh("hv_" + name, z3.IntSort())
        nv = VList(r, v.elem, v.nullable)
        eng.assume_wf(st, nv)
        return nv
    if isinstance(v, VDict):
        r = st.fresh("hv_" + name, z3.IntSort())
        nv = VDict(r, v.kt, v.vt, v.nullable)
        eng.assume_wf(st, nv)
        return nv
    if isinstance(v, VCList):
        items = [havoc_value(eng, st, it, name) for it in st.cl[v.id]]
        st.cl[v.id] = tuple(items)
        return v
    from .engine import VOpaque, VLine, VOpt
    if isinstance(v, VOpt):
        return VOpt(st.fresh("hv_" + name + "_isnone", z3.BoolSort()), havoc_value(eng, st, v.inner, name))
    if isinstance(v, VOpaque):
        return VOpaque(st.fresh("hv_" + name, z3.IntSort()), v.typ)
    if isinstance(v, VLine):
        return VLine(st.fresh("hv_" + name, v.t.sort()))
    if isinstance(v, (VFunc, VClass, VModule, VExt, VType, VExc, VDictView, VEnum, VRange, VReversed, VCSeq, VIter)):
        return v
    raise _E().Unsupported(f"cannot havoc {v!r}")


def merge_none_types(a, b):
    """Type join used when a variable is None on entry and something else inside the loop."""
    if isinstance(a, VNone) and isinstance(b, (VObj, VList, VDict)):
        return "nullable", b
    return None, None


def discover(eng, st: State, run_body, pre_names, only_keys=None):
    """Discovery pass: run the body once from a state with *everything* havocked.
    Returns (assigned env names -> sample value, changed clists {id: changed_len}, writes list)."""
    E = _E()
    d = st.fork()
    d.decisions = []
    d.dpos = 0
    # maximal havoc: fresh heap maps, fresh values for every env variable
    for k in list(d.heap.keys()):
        if only_keys is None or k in only_keys:
            d.heap[k] = d.fresh("dh", d.heap[k].sort())
    na = d.fresh("alloc", z3.IntSort())
    d.assume(na >= d.alloc)
    d.alloc = na
    d.writes = []
    d.lwrites = []
    saved_obl = eng.obligations
    saved_seen = set(eng._inline_seen)
    eng.obligations = []
    eng.discovery = getattr(eng, "discovery", 0) + 1
    try:
        outs = run_body(d)
    finally:
        eng.obligations = saved_obl
        eng._inline_seen = saved_seen
        eng.discovery -= 1
    assigned = {}
    cl_changed = {}
    writes = []
    entry_alloc = st.alloc
    ctr0 = st.fresh_ctr
    for s, out in outs:
        for name, v in s.env.items():
            if name.startswith("$"):
                continue
            if name not in st.env or st.env[name] is not v:
                if name not in assigned or isinstance(assigned[name], VNone):
                    assigned[name] = v
        for cid, items in s.cl.items():
            if cid in st.cl:
                old = d_cl_items(st, cid)
                if len(items) != len(old):
                    cl_changed[cid] = "len"
                elif any(a is not b for a, b in zip(items, old)):
                    cl_changed.setdefault(cid, "items")
        for key, ref, line in list(s.writes) + list(s.lwrites):
            internal = loop_internal(ref, ctr0)
            fresh = False
            if internal:
                fresh = eng.quick_sat(s.pc, ref <= entry_alloc) == "unsat"
            writes.append((key, ref, line, internal, fresh, s.heap[key].sort()))
    calls = set()
    base = len(st.trace)
    for s, out in outs:
        for ev in s.trace[base:]:
            if isinstance(ev, LoopSegment):
                if getattr(ev, "calls", None):
                    calls |= set(ev.calls)
            elif ev.target == "call":
                calls.add(ev.method)
    discover.last_calls = calls
    return assigned, cl_changed, writes, outs


def d_cl_items(st, cid):
    return st.cl[cid]


def loop_internal(term, ctr_at_entry):
    for name in _E().term_consts(term):
        if "!" in name:
            try:
                k = int(name.rsplit("!", 1)[1])
            except ValueError:
                continue
            if k > ctr_at_entry:
                return True
    return False


def apply_havoc(eng, st: State, entry: State, assigned, cl_changed, writes, ctr_at_entry, calls=None):
    """Havoc in `st` everything the body may write (as learned by discovery)."""
    for name, sample in assigned.items():
        cur = entry.env.get(name)
        base = cur if cur is not None else sample
        if isinstance(cur, VNone) and not isinstance(sample, VNone):
            # None on entry, object inside the loop: nullable join
            if isinstance(sample, VObj):
                base = VObj(sample.cls, z3.IntVal(0), True)
            elif isinstance(sample, VList):
                base = VList(z3.IntVal(0), sample.elem, True)
            else:
                raise _E().Unsupported(f"variable {name} changes kind across iterations")
        elif cur is not None and type(cur) is not type(sample) and not isinstance(sample, VNone):
            if isinstance(cur, VCList) and isinstance(sample, VList):
                base = sample
            elif isinstance(cur, (VInt, VBool)) and isinstance(sample, (VInt, VBool)):
                base = VInt(0)
            else:
                raise _E().Unsupported(f"variable {name} changes kind across iterations ({cur!r} vs {sample!r})")
        if isinstance(base, VObj) and isinstance(sample, VNone):
            base = VObj(base.cls, base.ref, True)
        if isinstance(base, VCList):
            # rebinding of a name that held a concrete list: keep the spine, havoc items
            if base.id not in st.cl:
                st.cl[base.id] = tuple(d_cl_items(entry, base.id)) if base.id in entry.cl else ()
            st.env[name] = havoc_value(eng, st, base, name)
        else:
            st.env[name] = havoc_value(eng, st, base, name)
    for cid, how in cl_changed.items():
        if how == "len":
            raise _E().Unsupported("concrete list changes length inside a cut loop (internal: should have been materialised)")
        items = [havoc_value(eng, st, it, f"cl{cid}") for it in st.cl[cid]]
        st.cl[cid] = tuple(items)
    # heap
    by_map = {}
    for key, ref, line, internal, fresh, sort in writes:
        by_map.setdefault(key, {"slots": [], "fresh": False, "wild": False, "sort": sort})
        e = by_map[key]
        if not internal:
            e["slots"].append(ref)
        elif fresh:
            e["fresh"] = True
        else:
            e["wild"] = True
    for key, e in by_map.items():
        cur = st.getmap(key, e["sort"])
        if e["wild"]:
            # written through a reference computed inside the loop that may denote an object that
            # existed before the loop: nothing is kept (the invariant has to carry what is needed)
            st.heap[key] = st.fresh("hm", cur.sort())
            continue
        m = cur
        seen = set()
        uniq = []
        for r in e["slots"]:
            if r.get_id() in seen:
                continue
            seen.add(r.get_id())
            uniq.append(r)
        # Writes through references that are provably allocated inside the loop need no havoc: beyond the allocation
        # counter at the loop head the entry map is unconstrained anyway (an arbitrary content, exactly what an arbitrary
        # iteration may have left there), and every slot that existed before the loop is unchanged.
        for r in uniq:
            m = z3.Store(m, r, st.fresh("hv", cur.sort().range()))
        st.heap[key] = m
    na = st.fresh("alloc", z3.IntSort())
    st.assume(na >= st.alloc)
    st.alloc = na
    seg = LoopSegment(0)
    seg.calls = calls
    st.trace = list(st.trace) + [seg]


def _is_key_storage(t):
    """t is DKEYS[...] (possibly under Stores): the internal key list of a dictionary"""
    if z3.is_app(t) and t.decl().kind() == z3.Z3_OP_SELECT:
        m = t.arg(0)
        while z3.is_app(m) and m.decl().kind() == z3.Z3_OP_STORE:
            m = m.arg(0)
        return z3.is_const(m) and "DKEYS" in m.decl().name()
    return False


def cut_loop(eng, n, st: State, itv, spec):
    E = _E()
    is_for = isinstance(n, ast.For)
    fk, lid = eng.loop_id_of(n, st)
    label = f"loop{lid}@{n.lineno}"
    module = st.module
    inv = spec.invariant if spec else {}
    # materialise concrete lists whose length changes in the body
    if is_for:
        im = IterModel(eng, st, itv, n)
        n_term = im.n
    entry = st.fork()
    ctr_at_entry = st.fresh_ctr
    ivar = "i"

    def bind_target(s, i):
        if is_for:
            eng.assign(s, n.target, im.elem(eng, s, i), n)

    def run_body_from(s, i):
        """assume guard, bind, run body; returns outcomes"""
        if is_for:
            s.assume(z3.And(i >= 0, i < n_term))
            bind_target(s, i)
            return eng.run_block(n.body, s)
        outs = []
        # while: evaluate guard with forks
        for s2, out in eng.run_stmt(ast.If(test=n.test, body=[ast.Pass()], orelse=[ast.Break()], lineno=n.lineno, col_offset=0), s):
            if out.kind == "break":
                outs.append((s2, Outcome_exit))
            elif out.kind == "normal":
                outs.extend(eng.run_block(n.body, s2))
            else:
                outs.append((s2, out))
        return outs

    Outcome_exit = E.Outcome("loop-exit")

    # --- discovery
    for attempt in range(4):
        i_d = st.fresh("i_d", z3.IntSort())

        def disc_body(d):
            d.ghost = dict(d.ghost)
            d.ghost["loop_i"] = i_d
            for name in assigned_names(n.body) | (assigned_names([n]) if is_for else set()):
                if name in d.env:
                    try:
                        d.env[name] = havoc_value(eng, d, d.env[name], name)
                    except E.Unsupported:
                        pass
            for cid in list(d.cl.keys()):
                d.cl[cid] = tuple(havoc_value(eng, d, it, "cl") if isinstance(it, (VInt, VBool, VStr, VReal)) else it for it in d.cl[cid])
            return run_body_from(d, i_d)

        assigned, cl_changed, writes, douts = discover(eng, st, disc_body, set(st.env.keys()))
        # second pass: only the maps the body can write are havocked, so that references computed through untouched maps
        # are recognised as known at loop entry (slot havoc instead of whole-map havoc)
        for _round in range(3):
            wkeys = {w[0] for w in writes}
            a2, c2, w2, d2 = discover(eng, st, disc_body, set(st.env.keys()), only_keys=wkeys)
            if {w[0] for w in w2} <= wkeys:
                assigned, cl_changed, writes, douts = a2, c2, w2, d2
                break
            writes = writes + w2
        grow = [cid for cid, how in cl_changed.items() if how == "len"]
        syn = assigned_names(n.body) | (assigned_names([n.target]) if is_for else set())
        promoted = False
        for name, sample in list(assigned.items()):
            cur = st.env.get(name)
            if isinstance(cur, VCList) and isinstance(sample, VList) and name not in syn:
                # a nested loop turned this concrete list into a heap list: do it before this loop
                st.env[name] = eng.materialize(st, cur, sample.elem)
                promoted = True
        if promoted:
            entry = st.fork()
            ctr_at_entry = st.fresh_ctr
            continue
        if not grow:
            break
        changed = False
        fk = st.ghost.get("fn_key") or eng.cur_fn
        cc = eng.reg.get(fk) if fk else None
        for name, v in list(st.env.items()):
            if isinstance(v, VCList) and v.id in grow:
                elem = None
                if cc is not None and name in cc.locals and cc.locals[name].kind == "list":
                    elem = cc.locals[name].args[0]
                if elem is None and (v.elem is None or v.elem == TAny) and not st.cl[v.id]:
                    for ds, _o in douts:
                        items = ds.cl.get(v.id, ())
                        if items:
                            elem = items[-1].typ
                            if isinstance(items[-1], VCList):
                                elem = None
                            break
                st.env[name] = eng.materialize(st, v, elem)
                changed = True
        if not changed:
            raise E.Unsupported("concrete list reachable only indirectly grows inside a cut loop", n)
        entry = st.fork()
        ctr_at_entry = st.fresh_ctr
    else:
        raise E.Unsupported("could not stabilise loop shape", n)

    if is_for and not getattr(eng, "discovery", 0):
        for key, ref, line, internal, fresh, sort in writes:
            if key[0] in ("LEN", "ELT") and not fresh:
                for src in im.source_refs():
                    if not loop_internal(ref, ctr_at_entry):
                        if _is_key_storage(ref) != _is_key_storage(src):
                            continue    # the key storage of a dictionary is never a program-visible list (IS_KEYS)
                        same = eng.quick_sat(st.pc, ref == src)
                        if same != "unsat":
                            if os.environ.get("PYVC_DEBUG"):
                                print("iter-src clash:", key, ref, src, file=sys.stderr)
                            raise E.Unsupported("loop body may modify the list it iterates over", n)

    def inv_env(s, i):
        env = {k: v for k, v in s.env.items()}
        if is_for:
            env[ivar] = VInt(i)
            env["n_iter"] = VInt(n_term)
        return env

    def eval_inv(s, i, old_state):
        res = []
        for nm, text in inv.items():
            res.append((nm, text, eng.eval_clause(s, text, inv_env(s, i), module, old_state=old_state)))
        return res

    outs = []
    fn_entry = st.entry
    # 1. entry
    zero = z3.IntVal(0)
    for nm, text, g in eval_inv(st, zero, fn_entry):
        eng.check_now(st, f"inv-entry:{label}:{nm}", "invariant-entry", g, n, text)

    # 3. arbitrary iteration
    h = st.fork()
    apply_havoc(eng, h, entry, assigned, cl_changed, writes, ctr_at_entry, set(getattr(discover, 'last_calls', set())))
    i = h.fresh("i", z3.IntSort())
    if is_for:
        h.assume(z3.And(i >= 0, i <= n_term))
    for nm, text, g in eval_inv(h, i, fn_entry):
        h.assume(g)
    h.ghost = dict(h.ghost)
    h.ghost["loop_i"] = i
    h.lwrites = list(h.lwrites) + [(key, ref, line) for key, ref, line, _i, _f, _s in writes]
    after = h.fork()

    body_state = h.fork()
    body_state.decisions = []
    body_state.dpos = 0
    dec0 = None
    if not is_for and spec and spec.decreases:
        dec0 = eng.eval_clause(body_state, spec.decreases + " >= 0", inv_env(body_state, i), module, old_state=fn_entry)
        dec_node = ast.parse(spec.decreases, mode="eval").body
    trace_mark = len(body_state.trace)
    body_state.writes = []
    for s, out in run_body_from(body_state, i):
        if out.kind in ("normal", "continue", "break") and getattr(eng, "frame_hook", None) and not getattr(eng, "discovery", 0):
            eng.frame_hook(s)
        if out.kind in ("normal", "continue"):
            nxt = i + 1 if is_for else i
            for nm, text, g in eval_inv(s, nxt, fn_entry):
                eng.add_obligation(s, f"inv-preserve:{label}:{nm}", "invariant-preserve", g, n, text)
            if spec:
                for nm, text in spec.body_asserts.items():
                    env = inv_env(s, i)
                    s.ghost = dict(s.ghost)
                    s.ghost["iter_trace"] = s.trace[trace_mark:]
                    g = eng.eval_clause(s, text, env, module, old_state=body_state)
                    eng.add_obligation(s, f"body:{label}:{nm}", "loop-body", g, n, text)
            if not is_for and spec and spec.decreases:
                before = eng.eval_clause(body_state, "True", {}, module)
                mv0 = eng.ev_in(body_state, spec.decreases, inv_env(body_state, i), module)
                mv1 = eng.ev_in(s, spec.decreases, inv_env(s, i), module)
                eng.add_obligation(s, f"decreases:{label}", "termination", z3.And(mv1.t < mv0.t, mv0.t >= 0), n,
                                   spec.decreases)
        elif out.kind == "break":
            outs.append((s, E.NORMAL))
        elif out.kind == "loop-exit":
            pass
        else:
            outs.append((s, out))

    # 5. after the loop
    if is_for:
        after.assume(i == n_term)
        outs.append((after, E.NORMAL))
    else:
        for s2, out in eng.run_stmt(ast.If(test=n.test, body=[ast.Break()], orelse=[ast.Pass()], lineno=n.lineno, col_offset=0), after):
            if out.kind == "normal":
                outs.append((s2, E.NORMAL))
            elif out.kind == "break":
                pass
            else:
                outs.append((s2, out))
    return outs


def exec_while(eng, n: ast.While, st: State):
    E = _E()
    if n.orelse:
        raise E.Unsupported("while/else", n)
    spec = eng.loop_spec(n, st)
    return cut_loop(eng, n, st, None, spec)
