"""Static types used by pyvc to decode heap terms into symbolic values.

Type strings (as written in sidecar contracts) are parsed by parse_type:
  int bool str float None any
  Cls                      (object of a repository class; nullable: Optional[Cls] / Cls|None)
  list[T] tuple[T1,T2] dict[K,V] set[T] Optional[T]
  ext:Name                 (opaque external object)
"""
from __future__ import annotations

import ast
from dataclasses import dataclass


@dataclass(frozen=True)
class T:
    kind: str
    args: tuple = ()
    name: str = ""

    def __str__(self):
        if self.kind == "obj":
            return self.name
        if self.kind == "ext":
            return "ext:" + self.name
        if self.args:
            return f"{self.kind}[{','.join(str(a) for a in self.args)}]"
        return self.kind


TInt = T("int")
TBool = T("bool")
TStr = T("str")
TReal = T("real")
TNone = T("none")
TAny = T("any")


def TObj(name):
    return T("obj", (), name)


def TExt(name):
    return T("ext", (), name)


def TList(e):
    return T("list", (e,))


def TOpt(e):
    return T("opt", (e,))


def TTuple(*es):
    return T("tuple", tuple(es))


def TDict(k, v):
    return T("dict", (k, v))


def TSet(e):
    return T("set", (e,))


_SIMPLE = {"int": TInt, "bool": TBool, "str": TStr, "float": TReal, "real": TReal, "None": TNone,
           "any": TAny, "Any": TAny, "object": TAny}


def parse_type(s) -> T:
    if isinstance(s, T):
        return s
    s = s.strip()
    if s.startswith("ext:") and "[" not in s and "," not in s:
        return TExt(s[4:])
    s = s.replace("ext:", "ext__")
    node = ast.parse(s, mode="eval").body
    return _from_node(node)


def _from_node(n) -> T:
    if isinstance(n, ast.Constant):
        if n.value is None:
            return TNone
        if isinstance(n.value, str):
            return parse_type(n.value)
    if isinstance(n, ast.Name):
        if n.id in _SIMPLE:
            return _SIMPLE[n.id]
        if n.id in ("list", "List"):
            return TList(TAny)
        if n.id in ("dict", "Dict"):
            return TDict(TAny, TAny)
        if n.id.startswith("ext__"):
            return TExt(n.id[5:])
        return TObj(n.id)
    if isinstance(n, ast.Attribute):
        return TObj(n.attr)
    if isinstance(n, ast.BinOp) and isinstance(n.op, ast.BitOr):
        l, r = _from_node(n.left), _from_node(n.right)
        if l == TNone:
            return TOpt(r)
        if r == TNone:
            return TOpt(l)
        return TAny
    if isinstance(n, ast.Subscript):
        base = n.value.id if isinstance(n.value, ast.Name) else getattr(n.value, "attr", "")
        sl = n.slice
        elts = list(sl.elts) if isinstance(sl, ast.Tuple) else [sl]
        args = [_from_node(e) for e in elts]
        if base in ("list", "List", "Iterable", "Sequence"):
            return TList(args[0])
        if base in ("tuple", "Tuple"):
            return TTuple(*args)
        if base in ("dict", "Dict"):
            return TDict(args[0], args[1])
        if base in ("set", "Set"):
            return TSet(args[0])
        if base == "Optional":
            return TOpt(args[0])
        if base == "Union":
            non = [a for a in args if a != TNone]
            if len(non) == 1 and len(args) == 2:
                return TOpt(non[0])
            return TAny
        return TAny
    return TAny
