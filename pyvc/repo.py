"""Reads the real source of /repo on every run: modules, functions, classes, imports.

Nothing is cached across runs; the SHA-256 of every function segment that takes part in a
proof is reported in the evidence.
"""
from __future__ import annotations

import ast
import hashlib
import os

REPO = os.environ.get("VERIF_REPO", "/repo")


class FuncInfo:
    def __init__(self, module, qualname, node, cls=None, src=""):
        self.module = module
        self.qualname = qualname
        self.node = node
        self.cls = cls
        self.src = src
        self.key = f"{module}:{qualname}"
        self.sha = hashlib.sha256(src.encode()).hexdigest()[:16]
        decos = []
        for d in node.decorator_list:
            if isinstance(d, ast.Name):
                decos.append(d.id)
            elif isinstance(d, ast.Attribute):
                decos.append(d.attr)
        self.decorators = decos

    @property
    def is_static(self):
        return "staticmethod" in self.decorators

    @property
    def is_classmethod(self):
        return "classmethod" in self.decorators

    @property
    def is_property(self):
        return "property" in self.decorators


class ClassInfo:
    def __init__(self, module, name, node):
        self.module = module
        self.name = name
        self.node = node
        self.key = f"{module}:{name}"
        self.methods: dict[str, FuncInfo] = {}
        self.bases: list = []  # resolved later: list of ClassInfo or str (external)
        self.base_exprs = node.bases
        self.is_dataclass = any(
            (isinstance(d, ast.Name) and d.id == "dataclass")
            or (isinstance(d, ast.Call) and getattr(d.func, "id", "") == "dataclass")
            for d in node.decorator_list
        )
        self.dc_fields: list[tuple[str, ast.expr, ast.expr | None]] = []
        self.class_attrs: dict[str, ast.expr] = {}
        for st in node.body:
            if isinstance(st, ast.AnnAssign) and isinstance(st.target, ast.Name):
                self.dc_fields.append((st.target.id, st.annotation, st.value))
                if st.value is not None:
                    self.class_attrs[st.target.id] = st.value
            elif isinstance(st, ast.Assign):
                for t in st.targets:
                    if isinstance(t, ast.Name):
                        self.class_attrs[t.id] = st.value

    def mro(self):
        out = [self]
        for b in self.bases:
            if isinstance(b, ClassInfo):
                for c in b.mro():
                    if c not in out:
                        out.append(c)
        return out

    def find_method(self, name):
        for c in self.mro():
            if name in c.methods:
                return c.methods[name]
        return None

    def init_fields(self):
        """Names assigned as self.x in any __init__ along the MRO, plus dataclass fields."""
        names = []
        for c in reversed(self.mro()):
            if c.is_dataclass:
                for f, _, _ in c.dc_fields:
                    if f not in names:
                        names.append(f)
            init = c.methods.get("__init__")
            if init:
                for n in ast.walk(init.node):
                    if isinstance(n, ast.Attribute) and isinstance(n.ctx, ast.Store) \
                            and isinstance(n.value, ast.Name) and n.value.id == "self":
                        if n.attr not in names:
                            names.append(n.attr)
        return names


class ModuleInfo:
    def __init__(self, name, path, src):
        self.name = name
        self.path = path
        self.src = src
        self.tree = ast.parse(src, filename=path)
        self.funcs: dict[str, FuncInfo] = {}
        self.classes: dict[str, ClassInfo] = {}
        self.imports: dict[str, tuple[str, str | None]] = {}  # local -> (module, name|None)
        self.consts: dict[str, ast.expr] = {}
        for st in self.tree.body:
            if isinstance(st, (ast.FunctionDef, ast.AsyncFunctionDef)):
                self.funcs[st.name] = FuncInfo(name, st.name, st, None, ast.get_source_segment(src, st) or "")
            elif isinstance(st, ast.ClassDef):
                ci = ClassInfo(name, st.name, st)
                for m in st.body:
                    if isinstance(m, (ast.FunctionDef, ast.AsyncFunctionDef)):
                        ci.methods[m.name] = FuncInfo(name, f"{st.name}.{m.name}", m, ci,
                                                      ast.get_source_segment(src, m) or "")
                self.classes[st.name] = ci
            elif isinstance(st, ast.ImportFrom):
                for a in st.names:
                    self.imports[a.asname or a.name] = (st.module or "", a.name)
            elif isinstance(st, ast.Import):
                for a in st.names:
                    self.imports[(a.asname or a.name).split(".")[0]] = (a.name if a.asname else a.name.split(".")[0], None)
            elif isinstance(st, ast.Assign):
                for t in st.targets:
                    if isinstance(t, ast.Name):
                        self.consts[t.id] = st.value
            elif isinstance(st, ast.AnnAssign) and isinstance(st.target, ast.Name) and st.value is not None:
                self.consts[st.target.id] = st.value


class Repo:
    def __init__(self, root=None, package="codelimit"):
        self.root = root or REPO
        self.package = package
        self.modules: dict[str, ModuleInfo] = {}
        pkg = os.path.join(self.root, package)
        for d, _, files in os.walk(pkg):
            for f in sorted(files):
                if f.endswith(".py"):
                    p = os.path.join(d, f)
                    rel = os.path.relpath(p, self.root)[:-3].replace(os.sep, ".")
                    if rel.endswith(".__init__"):
                        rel = rel[: -len(".__init__")]
                    with open(p, encoding="utf-8") as fh:
                        src = fh.read()
                    try:
                        self.modules[rel] = ModuleInfo(rel, p, src)
                    except SyntaxError as e:  # a broken file is the tests' problem, not ours
                        self.modules[rel] = None
        self.modules = {k: v for k, v in self.modules.items() if v is not None}
        self.class_by_short: dict[str, list[ClassInfo]] = {}
        for m in self.modules.values():
            for c in m.classes.values():
                self.class_by_short.setdefault(c.name, []).append(c)
        for m in self.modules.values():
            for c in m.classes.values():
                for b in c.base_exprs:
                    r = None
                    bn = b
                    if isinstance(bn, ast.Subscript):
                        bn = bn.value
                    if isinstance(bn, ast.Name):
                        r = self.resolve(m.name, bn.id)
                    c.bases.append(r[1] if r and r[0] == "class" else ast.unparse(b))

    def module(self, name) -> ModuleInfo:
        return self.modules[name]

    def func(self, key) -> FuncInfo:
        mod, qn = key.split(":")
        m = self.modules[mod]
        if "." in qn:
            c, f = qn.split(".", 1)
            return m.classes[c].methods[f]
        return m.funcs[qn]

    def has_func(self, key):
        try:
            self.func(key)
            return True
        except KeyError:
            return False

    def cls(self, name) -> ClassInfo:
        """name: 'module:Class' or unique short name."""
        if ":" in name:
            mod, c = name.split(":")
            return self.modules[mod].classes[c]
        cands = self.class_by_short.get(name, [])
        if len(cands) == 1:
            return cands[0]
        raise KeyError(f"class {name}: {len(cands)} candidates")

    def resolve(self, module, name, _depth=0):
        """Resolve a global name used in `module`.
        Returns ('func', FuncInfo) | ('class', ClassInfo) | ('const', (ModuleInfo, expr)) |
                ('module', modname) | ('external', 'mod.name') | None"""
        m = self.modules.get(module)
        if m is None or _depth > 6:
            return None
        if name in m.funcs:
            return ("func", m.funcs[name])
        if name in m.classes:
            return ("class", m.classes[name])
        if name in m.consts:
            return ("const", (m, m.consts[name]))
        if name in m.imports:
            src_mod, src_name = m.imports[name]
            if src_name is None:
                if src_mod in self.modules:
                    return ("module", src_mod)
                return ("external", src_mod)
            full = f"{src_mod}.{src_name}"
            if full in self.modules:
                return ("module", full)
            if src_mod in self.modules:
                return self.resolve(src_mod, src_name, _depth + 1)
            return ("external", full)
        return None
