"""Runs one property check end to end and writes its evidence file."""
from __future__ import annotations

import importlib
import json
import os
import sys
import time

import z3

from . import driver, solve
from .engine import Obligation

VERIF = driver.VERIF


def run_property(pid, tier, seed):
    t0 = time.time()
    mod = importlib.import_module(f"props.{pid}")
    os.environ.update(getattr(mod, "ENV", {}))
    eng = driver.build_engine()
    known = driver.load_known()
    drift_notes = driver.schema_drift(eng)
    fn_reports = []
    findings = []
    undecided = []
    faults = []

    # ---- [P] functions under contract
    from .engine import Engine
    specs_src = open(os.path.join(VERIF, "contracts", "specs.py")).read()
    all_ctx = {}
    engines = [("property-level lemmas", eng)]
    for key in mod.FUNCTIONS:
        c = eng.reg.get(key)
        if c is None:
            faults.append(f"no contract registered for {key}")
            continue
        # one engine per function: symbol numbering and axiom sets do not depend on what was verified before
        e1 = Engine(eng.repo, eng.reg, specs_src)
        e1._inline_seen = set()
        rep = e1.verify(key)
        fn_reports.append(rep)
        for ob in e1.obligations:
            ob.eng = e1
        eng.obligations.extend(e1.obligations)
        eng.used_assumptions |= e1.used_assumptions
        eng.notes.extend(e1.notes)
        eng.unverified_paths.extend(e1.unverified_paths)
        eng.quick_calls += e1.quick_calls
        eng.quick_time += e1.quick_time
        eng.paths += e1.paths
        engines.append((key, e1))
        all_ctx.update(getattr(e1, "fn_ctx", {}))
    eng.fn_ctx = all_ctx
    extra_info = None
    if hasattr(mod, "extra_obligations"):
        try:
            obs, extra_info = mod.extra_obligations(eng, driver)
            eng.obligations.extend(obs)
        except Exception as ex:  # noqa
            import traceback as _tb
            extra_info = {"status": "bounded-fallback", "reason": f"{type(ex).__name__}: {ex}", "trace": _tb.format_exc()[-600:]}
    # ---- [P] property-level lemmas (pure logic over the contracts)
    if hasattr(mod, "lemmas"):
        eng.cur_fn = f"lemma:{pid}"
        for ob in mod.lemmas(eng):
            eng.obligations.append(ob)
    # vacuity guard
    for rep in fn_reports:
        if rep.status == "generated" and rep.n_obligations == 0:
            faults.append(f"{rep.key}: contract produced zero obligations")
        if rep.status == "error":
            faults.append(f"{rep.key}: {rep.reason}")
    disagreements = solve.discharge(eng.obligations, tier)
    if disagreements:
        faults.append(f"back ends disagree on: {disagreements[:5]}")
    # canary: `False` must not be provable from the global axioms (inconsistent lemma schemas would prove anything)
    # (per engine: symbol classes such as SUM0 are numbered per engine, so axiom sets of different engines must not be mixed)
    canary = "sat"
    for key, e1 in engines:
        s = z3.Solver()
        s.set("timeout", 3000)       # a refutation of inconsistent schemas is found at once; model construction may not finish
        s.set("rlimit", 5_000_000)
        for a in e1.axioms:
            s.add(a)
        r = str(s.check())
        if r == "unsat":
            canary = "unsat"
            faults.append(f"canary failed: the axioms used for {key} are inconsistent")
        elif r != "sat" and canary == "sat":
            canary = r

    # second chance under a more precise (still sound) float error model for the functions that need it
    retry_env = getattr(mod, "RETRY_ENV", None)
    if retry_env and any(o.result != "valid" and o.kind != "canary" for o in eng.obligations):
        failing_fns = sorted({o.fn for o in eng.obligations if o.result != "valid" and o.kind != "canary" and ":" in o.fn
                              and not o.fn.startswith("lemma:")})
        saved_env = {k: os.environ.get(k) for k in retry_env}
        os.environ.update(retry_env)
        try:
            eng2 = driver.build_engine()
            for key in failing_fns:
                eng2.verify(key)
            names = {o.name for o in eng.obligations if o.result != "valid"}
            eng2.obligations = [o for o in eng2.obligations if o.name in names and o.kind != "canary"]
            solve.discharge(eng2.obligations, tier)
            better = {}
            for o in eng2.obligations:
                better.setdefault(o.name, []).append(o)
            for i, o in enumerate(eng.obligations):
                if o.result != "valid" and o.name in better:
                    cands = better[o.name]
                    if cands and all(c.result == "valid" for c in cands) and \
                            len(cands) == sum(1 for x in eng.obligations if x.name == o.name):
                        o.result, o.backend = "valid", (cands[0].backend or "z3") + " (precise float model)"
                        o.time = (o.time or 0) + sum(c.time or 0 for c in cands)
        finally:
            for k, v in saved_env.items():
                if v is None:
                    os.environ.pop(k, None)
                else:
                    os.environ[k] = v
    # baseline of obligations discharged on the reference tree (committed, regenerated only by tools/mkbaseline.py)
    try:
        baseline = json.load(open(os.path.join(VERIF, "baseline", f"{pid}.json")))
    except Exception:
        baseline = {}
    ctx = getattr(eng, "fn_ctx", {})
    by_fn_failed = {}
    regressed = []
    import re as _re

    def _noline(name):
        # obligation names carry source line numbers (loop0@122, call@57): an edit above them must not hide the obligation
        return _re.sub(r"@\d+", "@", name)
    baseline_nolines = {_noline(k): v for k, v in baseline.items()}
    canaries = [o for o in eng.obligations if o.kind == "canary"]
    for o in canaries:
        if o.result == "valid":
            faults.append(f"canary proved: assumptions on a path of {o.fn} are inconsistent ({o.name})")
    eng.obligations = [o for o in eng.obligations if o.kind != "canary"]
    for ob in eng.obligations:
        if ob.result == "valid":
            continue
        f = driver.triage(getattr(ob, "eng", eng), pid, ob, ctx)
        if f is None:
            # undecided by the back ends. If this very obligation was discharged on the reference tree and the function's
            # source has changed since, it is reported (with the solver's reason) rather than left undecided.
            b = baseline.get(ob.name) or baseline_nolines.get(_noline(ob.name))
            cur_sha = eng.repo.func(ob.fn).sha if (":" in ob.fn and eng.repo.has_func(ob.fn)) else None
            if b is not None and cur_sha is not None and b.get("sha") != cur_sha:
                os.makedirs(os.path.join(VERIF, "replays", pid), exist_ok=True)
                safe = "".join(ch if ch.isalnum() or ch in "._-" else "_" for ch in ob.name.split("::", 1)[-1])[:80]
                path = os.path.join("replays", pid, f"{ob.fn.split(':')[-1]}__{safe}.json")
                with open(os.path.join(VERIF, path), "w") as fh:
                    json.dump({"property": pid, "function": ob.fn, "obligation": ob.name, "clause": ob.clause, "line": ob.line,
                               "solver": {"result": ob.result, "backend": ob.backend, "reason": ob.info.get("reason", "")},
                               "note": "no-failing-input-found: this obligation was discharged on the reference tree "
                                       f"(function source {b.get('sha')}) and is no longer discharged after the function changed ({cur_sha})"},
                              fh, indent=1)
                # a solver timeout is not a refutation: the obligation is handed to the bounded stand-ins of this property;
                # it is reported only together with a failing input they find (see below)
                regressed.append((ob, path, b))
                continue
            undecided.append(ob)
        else:
            findings.append(f)
            by_fn_failed.setdefault(ob.fn, []).append(ob.name)

    # ---- [B] bounded stand-ins / assumption validation (run under /venv/bin/python on the real code)
    bounded = []
    fallback_for = [r.key for r in fn_reports if r.status in ("unsupported", "drift")]
    # generic stand-in: every function's own contract evaluated at run time over a small scope
    skip = set(getattr(mod, "BOUNDED_SKIP", []))
    keys = [k for k in mod.FUNCTIONS if k not in skip and eng.reg.get(k) is not None and eng.repo.has_func(k)]
    budget = getattr(mod, "BOUNDED_BUDGET", 150) * (1 if tier == "quick" else 8)
    from concurrent.futures import ThreadPoolExecutor
    with ThreadPoolExecutor(max_workers=8) as ex:
        stubs = getattr(mod, "BOUNDED_STUBS", {})
        for b in ex.map(lambda k: driver.run_bounded(eng, pid, k, budget * (20 if k in stubs else 1), seed, stubs.get(k)), keys):
            bounded.append(b)
            for fl in b.get("failures", []):
                findings.append(driver.Finding(pid, fl["name"], fl["what"], fl.get("replay"), True, fl, kind="bounded"))
    if hasattr(mod, "bounded"):
        for b in mod.bounded(tier, seed, fallback_for):
            bounded.append(b)
            for fl in b.get("failures", []):
                findings.append(driver.Finding(pid, fl["name"], fl["what"], fl.get("replay"), True, fl, kind="bounded"))
            if b.get("fault"):
                faults.append(f"bounded check {b['name']}: {b['fault']}")

    # obligations that were discharged on the reference tree and time out after the function changed: a violation only if the
    # bounded stand-ins (the function's contract at run time, and the property's harness) produced a failing input
    lost_proofs = []
    if regressed:
        bounded_failed = any(f.kind == "bounded" for f in findings)
        for ob, path, b in regressed:
            if bounded_failed:
                findings.append(driver.Finding(pid, ob.name, ob.clause, path, False, {"baseline": b}))
                by_fn_failed.setdefault(ob.fn, []).append(ob.name)
            else:
                lost_proofs.append(f"{ob.name}: discharged on the reference tree, solver timeout after the function changed; "
                                   f"bounded stand-ins found no failing input (level of this function: bounded)")
    # ---- known findings
    reported = []
    known_lines = []
    seen = set()
    for f in findings:
        k = driver.match_known(known, f)
        if k is not None:
            line = f"KNOWN-FINDING: property={pid} {k['what']}"
            if line not in seen:
                seen.add(line)
                known_lines.append(line)
            continue
        reported.append(f)

    # ---- evidence
    obl = eng.obligations
    n_valid = sum(1 for o in obl if o.result == "valid")
    by_backend = {}
    for o in obl:
        b = by_backend.setdefault(o.backend or "none", {"count": 0, "seconds": 0.0})
        b["count"] += 1
        b["seconds"] = round(b["seconds"] + (o.time or 0.0), 3)
    samples = []
    for o in obl[:3] + [o for o in obl if o.result != "valid"][:3]:
        samples.append({"obligation": o.name, "kind": o.kind, "clause": o.clause, "line": o.line, "result": o.result,
                        "backend": o.backend, "seconds": round(o.time or 0, 3),
                        "smt2_bytes": len(o.smt2()) if o.assumptions or not z3.is_true(o.goal) else 0})
    for b in bounded:
        for smp in b.get("samples", [])[:2]:
            samples.append({"bounded_check": b.get("name"), "case": smp})
    if not samples:
        samples.append({"note": "no case recorded"})
    functions = []
    for rep in fn_reports:
        functions.append({"function": rep.key, "source_sha256_16": rep.sha, "status":
                          ("proved" if rep.status == "generated" and rep.key not in by_fn_failed else
                           "failed-obligation" if rep.status == "generated" else f"bounded-fallback ({rep.status}: {rep.reason})"),
                          "paths": rep.paths, "obligations": rep.n_obligations})
    trusted = sorted(set(getattr(mod, "TRUSTED", [])) | eng.used_assumptions)
    level = getattr(mod, "LEVEL", "proof")
    coverage = {
        "obligations": len(obl),
        "discharged": n_valid,
        "checker_cmd": f"./check {pid} --tier {tier}",
        "trusted_base": trusted,
        "functions_under_contract": functions,
        "by_backend": by_backend,
        "inline_feasibility_queries": {"count": eng.quick_calls, "seconds": round(eng.quick_time, 2)},
        "paths_explored": eng.paths,
        "bounded_standins": [{k: v for k, v in b.items() if k != "failures"} for b in bounded],
        "samples": samples,
        "structural_notes": drift_notes + [n for n in eng.notes][:10],
        "paths_not_verified": list(eng.unverified_paths),
        "undecided": [o.name for o in undecided],
        "proofs_lost_after_change": lost_proofs,
        "known_findings": known_lines,
        "canary": canary,
        "path_canaries": {"checked": len(canaries), "refuted_or_unknown": sum(1 for o in canaries if o.result != "valid")},
        "explanation": getattr(mod, "EXPLANATION", ""),
        "property_specific": extra_info,
    }
    if bounded:
        coverage["evaluations"] = sum(b.get("evaluations", 0) for b in bounded)
        coverage["distinct_nontrivial"] = sum(b.get("distinct_nontrivial", 0) for b in bounded)
        coverage["rule"] = "; ".join(b.get("rule", "") for b in bounded if b.get("rule"))
    ev = {
        "property_id": pid, "tier": tier, "seed": seed, "level": level, "coverage": coverage,
        "assumptions": sorted(set(getattr(mod, "ASSUMPTIONS", [])) | eng.used_assumptions),
        "wall_s": round(time.time() - t0, 2), "violations": len(reported),
    }
    if os.environ.get("VERIF_WRITE_BASELINE") == "1":
        os.makedirs(os.path.join(VERIF, "baseline"), exist_ok=True)
        bl = {}
        for o in obl:
            if o.result == "valid" and ":" in o.fn and eng.repo.has_func(o.fn):
                bl[o.name] = {"sha": eng.repo.func(o.fn).sha}
        with open(os.path.join(VERIF, "baseline", f"{pid}.json"), "w") as fh:
            json.dump(bl, fh, indent=0, sort_keys=True)
    # evidence/ describes /repo itself; a run against a scratch copy (VERIF_REPO, developer tools only) writes elsewhere
    scratch_run = os.environ.get("VERIF_REPO") and os.path.realpath(os.environ["VERIF_REPO"]) != os.path.realpath("/repo")
    ev_dir = os.path.join(VERIF, "replays", "_scratch_evidence") if scratch_run else os.path.join(VERIF, "evidence")
    os.makedirs(ev_dir, exist_ok=True)
    with open(os.path.join(ev_dir, f"{pid}.json"), "w") as f:
        json.dump(ev, f, indent=1, default=str)

    for line in known_lines:
        print(line)
    print(f"{pid} [{tier}]: {n_valid}/{len(obl)} obligations discharged over {len(fn_reports)} functions; "
          f"{len(bounded)} bounded checks; {len(reported)} violations; {len(undecided)} undecided; {time.time()-t0:.1f}s")
    for rep in fn_reports:
        if rep.status != "generated":
            print(f"  note: {rep.key}: {rep.status}: {rep.reason}")
    for lp in lost_proofs:
        print(f"  note: {lp}")
    if faults:
        for fl in faults:
            print("CHECKER-FAULT:", fl)
        return 3
    if reported:
        shown = set()
        for f in reported:
            tail = "" if f.reproduced else " no-failing-input-found"
            line = f"VIOLATION property={pid} replay={f.replay_path}{tail}"
            if line in shown:
                continue
            shown.add(line)
            print(line)
            print(f"  obligation: {f.name}\n  clause: {f.what}")
        return 1
    if undecided:
        for o in undecided:
            print(f"UNDECIDED: {o.name} ({o.info.get('reason','')})")
        return 2
    return 0
