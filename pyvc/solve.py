"""Discharge obligations: z3 first (deterministic rlimit + wall cap), cvc5 for z3's unknowns.

Obligations are serialised to SMT-LIB so that worker processes (and the cvc5 binary) can take them.
"""
from __future__ import annotations

import os
import subprocess
import tempfile
import time
from concurrent.futures import ProcessPoolExecutor, as_completed

import z3

CVC5 = "/usr/bin/cvc5"


def _z3_check(smt2, rlimit, timeout_ms):
    t0 = time.time()
    try:
        s = z3.Solver()
        s.set("rlimit", rlimit)
        s.set("timeout", timeout_ms)
        s.from_string(smt2)
        r = s.check()
        reason = ""
        if r == z3.unknown:
            reason = s.reason_unknown()
        return str(r), time.time() - t0, reason
    except Exception as e:  # noqa
        return "error", time.time() - t0, repr(e)


def _cvc5_check(smt2, timeout_s):
    t0 = time.time()
    with tempfile.NamedTemporaryFile("w", suffix=".smt2", delete=False) as f:
        f.write("(set-logic ALL)\n" + smt2 + "\n")
        path = f.name
    try:
        p = subprocess.run([CVC5, "--strings-exp", f"--tlimit={int(timeout_s * 1000)}", path],
                           capture_output=True, text=True, timeout=timeout_s + 5)
        out = p.stdout.strip().splitlines()
        r = out[0] if out else "unknown"
        if r not in ("sat", "unsat", "unknown"):
            r = "unknown"
        return r, time.time() - t0, (p.stderr or "")[:200]
    except subprocess.TimeoutExpired:
        return "unknown", time.time() - t0, "timeout"
    finally:
        os.unlink(path)


def _work(args):
    """Portfolio, in a fixed order: z3 with a small budget, cvc5, then z3 with the full budget."""
    idx, smt2, rlimit, timeout_ms, use_cvc5, cvc5_timeout, both = args[:7]
    qf = args[7] if len(args) > 7 else None
    if qf is not None:
        # stage 0: the quantifier-free part of the assumptions alone (a subset: `unsat` is conclusive)
        r0, t0_, _ = _z3_check(qf, 3_000_000, 5_000)
        if r0 == "unsat":
            return idx, "unsat", t0_, "z3 (quantifier-free subset)", "", None
    small = min(rlimit, 6_000_000)
    r, t, reason = _z3_check(smt2, small, min(timeout_ms, 10_000))
    backend = "z3"
    extra = None
    total = t
    if r in ("unknown", "error") and use_cvc5:
        r2, t2, reason2 = _cvc5_check(smt2, cvc5_timeout)
        total += t2
        if r2 in ("sat", "unsat"):
            return idx, r2, total, "cvc5", reason2, None
        r3, t3, reason3 = _z3_check(smt2, rlimit, timeout_ms) if rlimit > small else (r, 0.0, reason)
        total += t3
        if r3 in ("sat", "unsat"):
            return idx, r3, total, "z3", "", None
        return idx, "unknown", total, "z3+cvc5", f"z3: {reason3 or reason}; cvc5: {reason2}", None
    if both and r in ("sat", "unsat"):
        r2, t2, reason2 = _cvc5_check(smt2, cvc5_timeout)
        extra = (r2, t2)
    return idx, r, total, backend, reason, extra


def _child(conn, job):
    try:
        conn.send(_work(job))
    except Exception as e:  # noqa
        conn.send((job[0], "error", 0.0, "none", repr(e), None))
    finally:
        conn.close()


def _run_killable(jobs, workers):
    """One process per obligation, at most `workers` at a time. z3 does not always honour its own timeout (sequence and
    nonlinear tactics): a process that overruns its wall budget is killed and the obligation is `unknown` (wall cap)."""
    import multiprocessing as mp
    ctx = mp.get_context("fork")
    pending = list(jobs)
    running = {}     # idx -> (process, connection, deadline, t0)
    results = []
    while pending or running:
        while pending and len(running) < workers:
            job = pending.pop(0)
            timeout_ms, cvc5_timeout = job[3], job[5]
            budget = 5 + 10 + cvc5_timeout + timeout_ms / 1000.0
            budget = budget * 1.25 + 20
            a, b = ctx.Pipe(duplex=False)
            pr = ctx.Process(target=_child, args=(b, job), daemon=True)
            pr.start()
            b.close()
            running[job[0]] = (pr, a, time.time() + budget, time.time())
        done = []
        for idx, (pr, conn, deadline, t0) in running.items():
            if conn.poll(0):
                try:
                    results.append(conn.recv())
                except EOFError:
                    results.append((idx, "unknown", time.time() - t0, "none", "worker died", None))
                done.append(idx)
            elif not pr.is_alive():
                results.append((idx, "unknown", time.time() - t0, "none", "worker died", None))
                done.append(idx)
            elif time.time() > deadline:
                pr.kill()
                results.append((idx, "unknown", time.time() - t0, "z3+cvc5", "timeout (wall cap: the solver did not stop by itself)", None))
                done.append(idx)
        for idx in done:
            pr, conn, _d, _t = running.pop(idx)
            try:
                conn.close()
            except Exception:  # noqa
                pass
            pr.join(timeout=1)
        if not done:
            time.sleep(0.02)
    return results


def discharge(obligations, tier="quick", workers=None, progress=None):
    """Fill in .result/.backend/.time for obligations that have no result yet."""
    todo = [(i, ob) for i, ob in enumerate(obligations) if ob.result is None]
    # deterministic resource limit first; the wall-clock cap is only a safety net sized well above it
    rlimit = 60_000_000 if tier == "quick" else 300_000_000
    timeout_ms = 180_000 if tier == "quick" else 900_000
    cvc5_timeout = 10 if tier == "quick" else 90
    both = tier == "thorough"
    jobs = []
    for i, ob in todo:
        try:
            smt2 = ob.smt2()
        except Exception as e:  # noqa
            ob.result, ob.backend, ob.info["error"] = "unknown", "none", repr(e)
            continue
        if ob.kind == "canary":
            jobs.append((i, smt2, 3_000_000, 2500, False, 0, False))
        else:
            qf = ob.smt2(qf_only=True) if ob.has_quantified_assumptions() else None
            jobs.append((i, smt2, rlimit, timeout_ms, True, cvc5_timeout, both, qf))
    workers = workers or min(16, os.cpu_count() or 4)
    disagreements = []
    if not jobs:
        return disagreements
    results = _run_killable(jobs, workers)
    for idx, r, t, backend, reason, extra in results:
        ob = obligations[idx]
        ob.time = t
        ob.backend = backend
        ob.result = {"unsat": "valid", "sat": "invalid"}.get(r, "unknown")
        if reason:
            ob.info["reason"] = reason
        if extra is not None:
            r2, t2 = extra
            ob.info["cvc5"] = r2
            ob.info["cvc5_time"] = t2
            if r2 in ("sat", "unsat") and r in ("sat", "unsat") and r2 != r:
                disagreements.append(ob.name)
    return disagreements
