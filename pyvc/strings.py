"""String methods over z3's sequence theory (trusted base: str semantics of CPython)."""
from __future__ import annotations

import z3

from .values import *
from .pytypes import *
from . import engine as E

WS = [" ", "\t", "\n", "\r", "\x0b", "\x0c"]


def is_space_char(c):
    return z3.Or([c == z3.StringVal(w) for w in WS])


def str_method(B, st, s, name, args, kwargs, node):
    eng = B.eng
    t = s.t
    if name == "startswith":
        a = args[0].t
        if z3.is_string_value(a) and len(a.as_string()) == 1:
            # link to the character view used by s[0]: a one-character prefix is the first character
            return VBool(z3.And(z3.Length(t) >= 1, char_at(t, z3.IntVal(0)) == a))
        return VBool(z3.PrefixOf(a, t))
    if name == "endswith":
        return VBool(z3.SuffixOf(args[0].t, t))
    if name == "lower":
        f = z3.Function("str_lower", z3.StringSort(), z3.StringSort())
        ensure_lower_axioms(B)
        return VStr(f(t))
    if name == "isspace":
        # uninterpreted predicate of the string (non-empty and all characters are whitespace in CPython); the only
        # fact used is that a whitespace string is not empty
        f = z3.Function("str_isspace", z3.StringSort(), z3.BoolSort())
        if not getattr(B, "_isspace_ax", False):
            B._isspace_ax = True
            x = z3.String("isp!")
            B.eng.axioms.append(z3.ForAll([x], z3.Implies(f(x), z3.Length(x) > 0), patterns=[f(x)]), keys={"str_isspace"})
            B.eng.used_assumptions.add("str.isspace(): an uninterpreted predicate of the string, false for the empty string")
        return VBool(f(t))
    if name in ("strip", "lstrip", "rstrip"):
        if args:
            raise E.Unsupported("strip with argument", node)
        f = z3.Function("str_" + name, z3.StringSort(), z3.StringSort())
        ensure_strip_axioms(B, name)
        return VStr(f(t))
    if name == "join":
        f = z3.Function("str_join", z3.StringSort(), z3.IntSort(), z3.StringSort())
        v = args[0]
        if isinstance(v, VCList):
            items = st.cl[v.id]
            if not items:
                return VStr("")
            r = items[0].t
            for it in items[1:]:
                r = z3.Concat(r, t, it.t)
            return VStr(r)
        if isinstance(v, VList):
            g = z3.Function("str_join_list", z3.StringSort(), z3.ArraySort(z3.IntSort(), z3.StringSort()), z3.IntSort(), z3.StringSort())
            return VStr(g(t, z3.Select(st.eltmap(z3.StringSort()), v.ref), eng.list_len(st, v)))
        raise E.Unsupported("join of this iterable", node)
    if name == "split":
        from . import strsplit
        return strsplit.split_model(B, st, s, args, kwargs, node)
    if name == "count" and len(args) == 1 and isinstance(args[0], VStr) and z3.is_string_value(args[0].t) \
            and len(args[0].t.as_string()) == 1:
        return B.sp_count_char(st, [s, args[0]], {}, node)
    if name == "splitlines":
        res = eng.new_list(st, TStr)
        return res
    if name == "rfind":
        r = st.fresh("rfind", z3.IntSort())
        n = z3.Length(t)
        m = z3.Length(args[0].t)
        st.assume(z3.And(r >= -1, r <= n - m))
        st.assume(z3.Implies(r >= 0, z3.SubString(t, r, m) == args[0].t))
        st.assume(z3.Implies(r == -1, z3.Not(z3.Contains(t, args[0].t))))
        k = z3.Int("rf!")
        st.assume(z3.ForAll([k], z3.Implies(z3.And(k > r, k <= n - m), z3.SubString(t, k, m) != args[0].t)))
        return VInt(r)
    if name == "rstrip" or name == "format":
        raise E.Unsupported(f"str.{name}", node)
    if name == "replace":
        return VStr(z3.Replace(t, args[0].t, args[1].t)) if False else _unsup(name, node)
    raise E.Unsupported(f"str method {name}", node)


def _unsup(name, node):
    raise E.Unsupported(f"str method {name}", node)


def ensure_lower_axioms(B):
    if getattr(B, "_lower_ax", False):
        return
    B._lower_ax = True
    f = z3.Function("str_lower", z3.StringSort(), z3.StringSort())
    s = z3.String("ls!")
    B.eng.axioms.append(z3.ForAll([s], z3.Length(f(s)) == z3.Length(s), patterns=[f(s)]))
    B.eng.used_assumptions.add("str.lower(): length preserving, acts character-wise (ASCII); validated at run time")


def ensure_strip_axioms(B, name):
    key = "_strip_ax_" + name
    if getattr(B, key, False):
        return
    setattr(B, key, True)
    f = z3.Function("str_" + name, z3.StringSort(), z3.StringSort())
    s = z3.String("ss!")
    B.eng.axioms.append(z3.ForAll([s], z3.Contains(s, f(s)), patterns=[f(s)]))
    B.eng.used_assumptions.add(f"str.{name}(): result is a substring of the argument without leading/trailing ASCII whitespace")
