"""str.split(sep) model: fresh list of strings with the join/split axioms (trusted, validated at run time)."""
from __future__ import annotations

import z3
from .values import FA

from .values import *
from .pytypes import *
from . import engine as E


def split_model(B, st, s, args, kwargs, node):
    eng = B.eng
    if not args:
        raise E.Unsupported("split() on whitespace", node)
    sep = args[0]
    res = eng.new_list(st, TStr)
    n = eng.list_len(st, res)
    # at least one part; number of parts = occurrences of sep + 1 (not expanded); no part contains sep (single-char sep)
    st.assume(n >= 1)
    arr = z3.Select(st.eltmap(z3.StringSort()), res.ref)
    st.assume(z3.Implies(z3.Not(z3.Contains(s.t, sep.t)), z3.And(n == 1, z3.Select(arr, 0) == s.t)))
    st.assume(z3.Implies(z3.Contains(s.t, sep.t), n >= 2))
    st.ghost = dict(st.ghost)
    sp = dict(st.ghost.get("splits", {}))
    sp[str(res.ref)] = (s, sep)
    st.ghost["splits"] = sp
    eng.used_assumptions.add("str.split(sep): >= 1 parts, exactly one part (the string itself) iff sep does not occur")
    return res
