"""str.split(sep) model: fresh list of strings with the join/split axioms (trusted, validated at run time)."""
from __future__ import annotations

import z3
from .values import FA

from .values import *
from .pytypes import *
from . import engine as E


def split_model(B, st, s, args, kwargs, node):
    eng = B.eng
    if not args:
        raise E.Unsupported("split() on whitespace", node)
    sep = args[0]
    res = eng.new_list(st, TStr)
    n = eng.list_len(st, res)
    # at least one part; number of parts = occurrences of sep + 1 (not expanded); no part contains sep (single-char sep)
    st.assume(n >= 1)
    arr = z3.Select(st.eltmap(z3.StringSort()), res.ref)
    st.assume(z3.Implies(z3.Not(z3.Contains(s.t, sep.t)), z3.And(n == 1, z3.Select(arr, 0) == s.t)))
    st.assume(z3.Implies(z3.Contains(s.t, sep.t), n >= 2))
    st.ghost = dict(st.ghost)
    sp = dict(st.ghost.get("splits", {}))
    sp[str(res.ref)] = (s, sep)
    st.ghost["splits"] = sp
    eng.used_assumptions.add("str.split(sep): >= 1 parts, exactly one part (the string itself) iff sep does not occur")
    if z3.is_string_value(sep.t) and len(sep.t.as_string()) == 1:
        # one-character separator: occurrences + 1 parts; the last part is what follows the last occurrence
        cnt = B.sp_count_char(st, [s, sep], {}, node).t
        st.assume(n == cnt + 1)
        r = last_index(B, s.t, sep.t)
        st.assume(z3.Implies(z3.Contains(s.t, sep.t),
                             z3.Select(arr, n - 1) == z3.SubString(s.t, r + 1, z3.Length(s.t) - r - 1)))
        eng.used_assumptions.add("str.split(c) for a one-character c: count(c) + 1 parts, the last part is the text after the last c")
    return res


def last_index(B, t, c):
    """index of the last occurrence of the one-character string c in t (-1 if none)"""
    f = z3.Function("STRLAST", z3.StringSort(), z3.StringSort(), z3.IntSort())
    if not getattr(B, "_strlast_ax", False):
        B._strlast_ax = True
        a, ch = z3.String("sla!"), z3.String("slc!")
        k = z3.Int("slk!")
        ax = B.eng.axioms
        ax.append(FA([a, ch], z3.And(f(a, ch) >= -1, f(a, ch) < z3.Length(a)), patterns=[f(a, ch)]), keys={"STRLAST"})
        ax.append(FA([a, ch], z3.Implies(z3.And(z3.Contains(a, ch), z3.Length(ch) == 1),
                                            z3.And(f(a, ch) >= 0, char_at(a, f(a, ch)) == ch)), patterns=[f(a, ch)]), keys={"STRLAST"})
        ax.append(FA([a, ch], z3.Implies(z3.Not(z3.Contains(a, ch)), f(a, ch) == -1), patterns=[f(a, ch)]), keys={"STRLAST"})
        ax.append(FA([a, ch, k], z3.Implies(z3.And(k > f(a, ch), k < z3.Length(a)), char_at(a, k) != ch),
                       patterns=[z3.MultiPattern(f(a, ch), char_at(a, k))]), keys={"STRLAST"})
    return f(t, c)
