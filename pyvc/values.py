"""Symbolic values and the symbolic state (env, path condition, Boogie-style heap)."""
from __future__ import annotations

import z3

from .pytypes import T, TInt, TBool, TStr, TReal, TNone, TAny, TObj, TList, TOpt, TTuple


class V:
    typ: T = TAny


class VInt(V):
    typ = TInt

    def __init__(self, t):
        self.t = z3.IntVal(t) if isinstance(t, int) else t

    def __repr__(self):
        return f"VInt({self.t})"


class VBool(V):
    typ = TBool

    def __init__(self, t):
        self.t = z3.BoolVal(t) if isinstance(t, bool) else t

    def __repr__(self):
        return f"VBool({self.t})"


class VReal(V):
    typ = TReal

    def __init__(self, t):
        self.t = t

    def __repr__(self):
        return f"VReal({self.t})"


class VStr(V):
    typ = TStr

    def __init__(self, t):
        self.t = z3.StringVal(t) if isinstance(t, str) else t

    def __repr__(self):
        return f"VStr({self.t})"

    def concrete(self):
        if z3.is_string_value(self.t):
            return self.t.as_string()
        return None


class VNone(V):
    typ = TNone

    def __repr__(self):
        return "VNone"


class VTuple(V):
    def __init__(self, items):
        self.items = tuple(items)
        self.typ = TTuple(*[i.typ for i in self.items])

    def __repr__(self):
        return f"VTuple{self.items}"


class VObj(V):
    """Reference to a heap object of a repository class. ref==0 encodes None when nullable."""

    def __init__(self, cls, ref, nullable=False):
        self.cls = cls  # ClassInfo
        self.ref = ref
        self.nullable = nullable
        self.typ = TOpt(TObj(cls.name)) if nullable else TObj(cls.name)

    def __repr__(self):
        return f"VObj({self.cls.name},{self.ref}{'?' if self.nullable else ''})"


class VList(V):
    """Heap list: LEN[ref], ELT_sort[ref][i]."""

    def __init__(self, ref, elem: T, nullable=False):
        self.ref = ref
        self.elem = elem
        self.nullable = nullable
        self.typ = TList(elem)

    def __repr__(self):
        return f"VList({self.ref}:{self.elem})"


class VCList(V):
    """Concrete-spine list: state.cl[id] is a tuple of V. Mutable through the state."""

    def __init__(self, id, elem: T = TAny):
        self.id = id
        self.elem = elem
        self.typ = TList(elem)

    def __repr__(self):
        return f"VCList#{self.id}"


class VDict(V):
    """Heap dict: DHAS_k[ref][key], DVAL_k_v[ref][key], DKEYS[ref] = heap list of keys (insertion order)."""

    def __init__(self, ref, kt: T, vt: T, nullable=False):
        self.ref = ref
        self.kt = kt
        self.vt = vt
        self.nullable = nullable
        self.typ = T("dict", (kt, vt))

    def __repr__(self):
        return f"VDict({self.ref})"


class VCDict(V):
    """Concrete dict (python-side) with concrete keys, e.g. module constants."""

    def __init__(self, items: dict):
        self.items = items


class VExt(V):
    """Opaque external object (rich Style/Text/Console, Path, lexer...). Its attributes live in the
    state (State.ext[ident]) so that forks do not share mutations."""

    def __init__(self, kind, ident):
        self.kind = kind
        self.ident = ident
        self.typ = T("ext", (), kind)

    def __repr__(self):
        return f"VExt({self.kind}#{self.ident})"


class VFunc(V):
    """Callable: kind in {'repo','bound','lambda','closure','builtin','spec','class','extfn'}"""

    def __init__(self, kind, **kw):
        self.kind = kind
        self.__dict__.update(kw)

    def __repr__(self):
        return f"VFunc({self.kind},{getattr(self, 'name', '')})"


class VClass(V):
    def __init__(self, cls):
        self.cls = cls


class VModule(V):
    def __init__(self, name, external=False):
        self.name = name
        self.external = external


class VExc(V):
    def __init__(self, tname, args=(), kwargs=None):
        self.tname = tname
        self.args = tuple(args)
        self.kwargs = kwargs or {}

    def __repr__(self):
        return f"VExc({self.tname},{self.args},{self.kwargs})"


class VType(V):
    """A type object used in isinstance / except clauses (external or builtin)."""

    def __init__(self, name):
        self.name = name


class VIter(V):
    """Opaque external iterator of unknown length with elements of type elem (ext protocol)."""

    def __init__(self, tag, elem: T, model=None):
        self.tag = tag
        self.elem = elem
        self.model = model


# -------------------------------------------------------------------------------------------


def sort_of(t: T):
    if t.kind == "bool":
        return z3.BoolSort()
    if t.kind == "str":
        return z3.StringSort()
    if t.kind == "real":
        return z3.RealSort()
    return z3.IntSort()


def sort_name(s):
    return {"Int": "Int", "Bool": "Bool", "String": "String", "Real": "Real"}[str(s)]


class Event:
    """One ghost output event: target (console/table/text), method, args (list of V), kwargs."""

    def __init__(self, target, method, args, kwargs, line):
        self.target = target
        self.method = method
        self.args = args
        self.kwargs = kwargs
        self.line = line

    def __repr__(self):
        return f"Event({self.target}.{self.method}{self.args})"


class LoopSegment:
    def __init__(self, loop_id):
        self.loop_id = loop_id

    def __repr__(self):
        return f"LoopSegment({self.loop_id})"


class State:
    def __init__(self):
        self.env: dict[str, V] = {}
        self.pc: list = []
        self.heap: dict = {}
        self.alloc = z3.IntVal(0)
        self.cl: dict[int, tuple] = {}
        self.cl_ctr = 0
        self.trace: list = []
        self.decisions: list = []
        self.dpos = 0
        self.fresh_ctr = 0
        self.spec_mode = 0
        self.entry: State | None = None  # snapshot for old()
        self.alloc0 = None  # alloc at function entry
        self.frames: list = []  # stack of frame descriptors (for frame obligations)
        self.ghost: dict = {}
        self.module = None
        self.writes: list = []  # (mapkey, ref, line) recorded writes (frame checking)
        self.lwrites: list = []  # writes summarised from cut loops (already frame-checked inside the loop)
        self.call_depth = 0
        self.ext: dict[int, dict] = {}

    def fork(self) -> "State":
        s = State.__new__(State)
        s.env = dict(self.env)
        s.pc = list(self.pc)
        s.heap = dict(self.heap)
        s.alloc = self.alloc
        s.cl = dict(self.cl)
        s.cl_ctr = self.cl_ctr
        s.trace = list(self.trace)
        s.decisions = list(self.decisions)
        s.dpos = self.dpos
        s.fresh_ctr = self.fresh_ctr
        s.spec_mode = self.spec_mode
        s.entry = self.entry
        s.alloc0 = self.alloc0
        s.frames = list(self.frames)
        s.ghost = dict(self.ghost)
        s.module = self.module
        s.writes = list(self.writes)
        s.lwrites = list(self.lwrites)
        s.call_depth = self.call_depth
        s.ext = dict(self.ext)
        return s

    def become(self, o: "State"):
        keep_dec, keep_dpos = self.decisions, self.dpos
        self.__dict__.update(o.fork().__dict__)
        self.decisions, self.dpos = keep_dec, keep_dpos

    def fresh(self, prefix, sort):
        self.fresh_ctr += 1
        return z3.Const(f"{prefix}!{self.fresh_ctr}", sort)

    def assume(self, c):
        if z3.is_true(c):
            return
        i = c.get_id()
        for p in self.pc[-400:]:
            if p.get_id() == i:
                return
        self.pc.append(c)

    # ---- heap maps ----
    @staticmethod
    def map_name(key):
        if key[0] == "F":
            return f"H_{key[1].split(':')[-1]}_{key[2]}"
        return "H_" + "_".join(key)

    def getmap(self, key, sort):
        if key not in self.heap:
            self.heap[key] = z3.Const(self.map_name(key), sort)
        return self.heap[key]

    def fmap(self, cls_key, field, sort):
        return self.getmap(("F", cls_key, field), z3.ArraySort(z3.IntSort(), sort))

    def lenmap(self):
        return self.getmap(("LEN",), z3.ArraySort(z3.IntSort(), z3.IntSort()))

    def eltmap(self, sort):
        return self.getmap(("ELT", sort_name(sort)), z3.ArraySort(z3.IntSort(), z3.ArraySort(z3.IntSort(), sort)))

    def dhas(self, ksort):
        return self.getmap(("DHAS", sort_name(ksort)), z3.ArraySort(z3.IntSort(), z3.ArraySort(ksort, z3.BoolSort())))

    def dval(self, ksort, vsort):
        return self.getmap(("DVAL", sort_name(ksort), sort_name(vsort)),
                           z3.ArraySort(z3.IntSort(), z3.ArraySort(ksort, vsort)))

    def dkeys(self):
        return self.getmap(("DKEYS",), z3.ArraySort(z3.IntSort(), z3.IntSort()))

    def new_ref(self, prefix="r"):
        r = self.fresh(prefix, z3.IntSort())
        self.assume(r == self.alloc + 1)
        self.alloc = r
        return r

    def new_ext(self, kind, attrs=None):
        self.fresh_ctr += 1
        v = VExt(kind, self.fresh_ctr)
        self.ext[v.ident] = dict(attrs or {})
        return v

    def ext_attrs(self, v):
        return self.ext.get(v.ident, {})

    def ext_set(self, v, attr, val):
        d = dict(self.ext.get(v.ident, {}))
        d[attr] = val
        self.ext[v.ident] = d

    def new_clist(self, items, elem=TAny):
        self.cl_ctr += 1
        self.cl[self.cl_ctr] = tuple(items)
        return VCList(self.cl_ctr, elem)


def FA(vs, body, patterns=None, **kw):
    """ForAll with patterns when they are admissible (a pattern may not contain a lambda/quantifier)."""
    if patterns:
        try:
            return z3.ForAll(vs, body, patterns=patterns, **kw)
        except z3.Z3Exception:
            pass
    return z3.ForAll(vs, body, **kw)


def char_at(t, i):
    """One-character string at index i: an uninterpreted function of (string, index). The sequence theory is avoided on
    purpose: the proofs only need that the same position of the same string gives the same character."""
    f = z3.Function("str_at", z3.StringSort(), z3.IntSort(), z3.StringSort())
    return f(t, i)
