"""Generate the obligations of one function under contract from its real AST."""
from __future__ import annotations

import ast
import traceback

import z3

from .values import *
from .pytypes import *
from . import engine as E


class FnReport:
    def __init__(self, key):
        self.key = key
        self.status = "generated"  # generated | unsupported | drift | error
        self.reason = ""
        self.sha = ""
        self.paths = 0
        self.n_obligations = 0
        self.lines = (0, 0)


def entry_state(eng, fn, c):
    st = State()
    st.module = fn.module
    st.ghost["fn_key"] = fn.key
    a = fn.node.args
    names = [p.arg for p in a.posonlyargs + a.args + a.kwonlyargs]
    alloc0 = z3.Int("alloc0")
    st.alloc = alloc0
    st.assume(alloc0 >= 0)
    env = {}
    anns = {p.arg: p.annotation for p in a.posonlyargs + a.args + a.kwonlyargs}
    for nm in names:
        t = c.params.get(nm)
        if t is None:
            if nm in ("self",) and fn.cls is not None:
                t = TObj(fn.cls.name)
            elif nm == "cls" and fn.cls is not None and fn.is_classmethod:
                env[nm] = VClass(fn.cls)
                continue
            elif anns.get(nm) is not None:
                t = parse_type(ast.unparse(anns[nm]))
            else:
                t = TAny
        v = eng.fresh_value(st, t, "p_" + nm)
        if isinstance(v, VInt) or isinstance(v, VStr) or isinstance(v, VBool):
            v = type(v)(z3.Const("p_" + nm, v.t.sort()))
        elif isinstance(v, (VObj, VList, VDict)) and not isinstance(v, VCList):
            r = z3.Int("p_" + nm)
            lo = 0 if v.nullable else 1
            st.assume(z3.And(r >= lo, r <= alloc0))
            if isinstance(v, VList):
                st.assume(z3.Not(E.IS_KEYS(r)))
            v.ref = r
        env[nm] = v
    st.env = env
    if fn.node.args.vararg or fn.node.args.kwarg:
        raise E.Unsupported("*args/**kwargs in function under contract")
    for d in list(a.defaults) + [d for d in a.kw_defaults if d is not None]:
        if isinstance(d, (ast.List, ast.Dict, ast.Set, ast.ListComp, ast.DictComp, ast.SetComp)) or \
                (isinstance(d, ast.Call) and isinstance(d.func, ast.Name) and d.func.id in ("list", "dict", "set", "defaultdict")):
            raise E.Unsupported("mutable default argument (one object shared between calls)", d)
    return st


def verify_function(eng, key: str) -> FnReport:
    rep = FnReport(key)
    c = eng.reg.get(key)
    try:
        fn = eng.repo.func(key)
    except KeyError:
        rep.status = "drift"
        rep.reason = f"function {key} no longer exists"
        return rep
    rep.sha = fn.sha
    rep.lines = (fn.node.lineno, getattr(fn.node, "end_lineno", fn.node.lineno))
    eng.cur_fn = key
    eng.cur_contract = c
    eng.index_loops(fn.node)
    n_before = len(eng.obligations)
    n_unv0 = len(eng.unverified_paths)
    import os as _os, time as _time
    eng.gen_deadline = _time.time() + float(_os.environ.get("PYVC_GEN_BUDGET", "240"))
    try:
        st = entry_state(eng, fn, c)
        penv = dict(st.env)
        for nm, text in c.requires.items():
            st.assume(eng.eval_clause(st, text, penv, fn.module))
        st.alloc0 = st.alloc
        st.entry = st.fork()
        st.writes = []
        if not hasattr(eng, "fn_ctx"):
            eng.fn_ctx = {}
        eng.fn_ctx[key] = (penv, st.entry)
        # vacuity: the precondition must be satisfiable
        r = eng.quick_sat(st.pc)
        if r == "unsat":
            rep.status = "error"
            rep.reason = "contradictory precondition"
            eng.gen_deadline = None
            return rep
        eng.frame_hook = lambda s_, st0=st: check_frame(eng, s_, st0, c, penv, fn)
        outs = eng.run_block(fn.node.body, st)
        eng.frame_hook = None
        n_paths = 0
        for s, out in outs:
            if eng.is_dead(s):
                continue
            n_paths += 1
            expected_exit = out.kind in ("normal", "return") or (out.kind == "raise" and any(E.exc_matches(out.value.tname, [en]) for en in c.raises))
            if n_paths <= 6 and expected_exit:
                ob = eng.add_obligation(s, f"canary:path{n_paths}", "canary", z3.BoolVal(False), out.node or fn.node,
                                        "False (must NOT be provable: the path's assumptions are consistent)")
            if out.kind in ("normal", "return"):
                res = out.value if out.kind == "return" and out.value is not None else VNone()
                if c.returns is not None:
                    res = eng.coerce(s, res, c.returns)
                fenv = final_env(s, penv)
                for pat in c.call_sites:
                    if pat not in s.ghost.get("call_sites_seen", ()):
                        pass
                for nm, text in c.hints.items():
                    # proof hints: proved first (an obligation like any other), then available to the clauses below
                    g = eng.eval_clause(s, text, fenv, fn.module, old_state=st.entry, extra={"result": res})
                    eng.add_obligation(s, f"hint:{nm}", "hint", g, out.node or fn.node, text)
                    s.assume(g)
                for nm, text in c.ensures.items():
                    g = eng.eval_clause(s, text, fenv, fn.module, old_state=st.entry, extra={"result": res})
                    eng.add_obligation(s, f"ensures:{nm}", "postcondition", g, out.node or fn.node, text)
                check_frame(eng, s, st, c, penv, fn)
                for en, cond in c.raises.items():
                    if cond and cond.startswith("iff:"):
                        g = z3.Not(eng.eval_clause(s, cond[4:], penv, fn.module, old_state=st.entry))
                        eng.add_obligation(s, f"raises-iff:{en}:normal-exit", "postcondition", g, out.node or fn.node, cond)
            elif out.kind == "raise":
                tn = out.value.tname
                allowed = [en for en in c.raises if E.exc_matches(tn, [en])]
                line = getattr(out.node, "lineno", 0)
                if not allowed:
                    what = out.value.args[0].concrete() if out.value.args and isinstance(out.value.args[0], VStr) else ""
                    eng.add_obligation(s, f"no-raise:{tn}@{line}", "safety", z3.BoolVal(False), out.node,
                                       f"{tn} must not escape ({what})")
                else:
                    en = allowed[0]
                    cond = c.raises[en]
                    if cond:
                        text = cond[4:] if cond.startswith("iff:") else cond
                        g = eng.eval_clause(s, text, final_env(s, penv), fn.module, old_state=st.entry)
                        eng.add_obligation(s, f"raises-when:{en}@{line}", "postcondition", g, out.node, text)
                    for nm, text in c.ensures_raise.get(en, {}).items():
                        g = eng.eval_clause(s, text, final_env(s, penv), fn.module, old_state=st.entry, extra={"exc": out.value})
                        eng.add_obligation(s, f"ensures-raise:{en}:{nm}@{line}", "postcondition", g, out.node, text)
                    check_frame(eng, s, st, c, penv, fn)
            else:
                raise E.Unsupported(f"outcome {out.kind} at function level")
        rep.paths = n_paths
        if n_paths == 0 and len(eng.unverified_paths) > n_unv0:
            rep.status = "unsupported"
            rep.reason = "every path hit an unsupported construct: " + eng.unverified_paths[-1]
            del eng.obligations[n_before:]
        elif n_paths == 0:
            rep.status = "error"
            rep.reason = "no feasible path (vacuous)"
    except E.Drift as d:
        rep.status = "drift"
        rep.reason = d.reason
        del eng.obligations[n_before:]
    except E.Unsupported as u:
        rep.status = "unsupported"
        ln = getattr(u.node, "lineno", "?")
        rep.reason = f"{u.reason} (line {ln})"
        rep.tb = traceback.format_exc()
        del eng.obligations[n_before:]
    except (E.NeedFork,) as nf:
        rep.status = "error"
        rep.reason = "fork outside statement"
        rep.tb = traceback.format_exc()
        del eng.obligations[n_before:]
    eng.gen_deadline = None
    rep.n_obligations = len(eng.obligations) - n_before
    return rep


def final_env(s, penv):
    """Clauses see the parameters (entry values unless reassigned) and the locals at exit."""
    env = dict(penv)
    for k, v in s.env.items():
        if not k.startswith("$"):
            env[k] = v
    return env


def check_frame(eng, s: State, st0: State, c, penv, fn):
    """Every heap write to an object that existed on entry must be covered by `modifies`."""
    if "*" in c.modifies:
        return
    allowed = []  # (mapkey, ref)
    spec = st0.entry.fork()
    spec.env = dict(penv)
    spec.spec_mode = 1
    for text in c.modifies:
        t = text.strip()
        if t == "*":
            continue
        content = None
        if t.endswith("[]"):
            content, t = "list", t[:-2]
        elif t.endswith("{}"):
            content, t = "dict", t[:-2]
        expr = ast.parse(t, mode="eval").body
        if content is None:
            base = eng.ev(expr.value, spec)
            if isinstance(base, VClass):
                allowed.append((("F", base.cls.key, "@" + expr.attr), z3.IntVal(0)))
            else:
                allowed.append((("F", eng.field_owner(base.cls, expr.attr), expr.attr), base.ref))
        else:
            v = eng.ev(expr, spec)
            if content == "list":
                allowed.append((("LEN",), v.ref))
                allowed.append((("ELT", sort_name(sort_of(v.elem))), v.ref))
            else:
                for k in eng.b.dict_map_keys(v):
                    allowed.append((k, v.ref))
                allowed.append((("DKEYS",), v.ref))
                keys = eng.b.dict_keys_list(spec, v)
                allowed.append((("LEN",), keys.ref))
                allowed.append((("ELT", sort_name(sort_of(v.kt))), keys.ref))
    seen = set()
    for key, ref, line in s.writes:
        sig = (key, ref.get_id())
        if sig in seen:
            continue
        seen.add(sig)
        ok = [ref > st0.alloc0] + [ref == r for k, r in allowed if k == key]
        g = z3.simplify(z3.Or(ok))
        if z3.is_true(g):
            continue
        nm = key[2] if key[0] == "F" else "_".join(key)
        eng.add_obligation(s, f"frame:{nm}@{line}", "frame", g, None, f"write to {nm} outside modifies")
