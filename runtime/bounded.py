#!/venv/bin/python
"""Bounded stand-in: the same contract clauses, evaluated by CPython on the real function over an
enumerated small scope (plus seeded random inputs). Never counted as proof.

stdin: JSON job {function, params:{name:type}, self_type, requires:{}, ensures:{}, wrap:[keys], stubs:{key: generator-name},
                 budget:int, seed:int, classes:{Class:{field:type}}}
stdout: JSON {evaluations, distinct_nontrivial, failures:[{name, what, inputs, observed}], samples:[...]}"""
import copy
import importlib
import itertools
import json
import os
import random
import sys
import traceback

sys.path.insert(0, os.path.dirname(os.path.abspath(__file__)))
import speclib  # noqa

speclib.install_recorders()

INTS = [0, 1, 15, 16, 30, 31, 60, 61, 2, 14, 17, 29, 32, 59, 62, 100, 1000, -1]
STRS = ["a", "", "Python", "x/y.py", "b", "// nocl", "#nocl x", "/* NOCL */", "// see nocl", "//  NoCl", "# not", "  ", "\n", "(", ")", "{", "}",
        "x", "=>", "function", ";nocl", "/*nocl*/", "nocl", "//", "def", "# was: f(a)  # nocl", "// x //nocl", "/* a /* nocl */", "// x ;nocl"]


def split_top(s):
    out, depth, cur = [], 0, ""
    for ch in s:
        if ch == "[":
            depth += 1
        if ch == "]":
            depth -= 1
        if ch == "," and depth == 0:
            out.append(cur.strip())
            cur = ""
        else:
            cur += ch
    if cur.strip():
        out.append(cur.strip())
    return out


class Gen:
    def __init__(self, classes, rnd):
        self.classes = classes
        self.rnd = rnd

    def pool(self, t, depth=0):
        """A small list of representative values of type string t."""
        t = t.strip()
        if t in ("int",):
            return list(INTS)
        if t == "bool":
            return [False, True]
        if t == "str":
            return list(STRS)
        if t in ("None", "none"):
            return [None]
        if t.startswith("Optional[") or t.startswith("opt["):
            inner = t[t.index("[") + 1:-1]
            return [None] + self.pool(inner, depth)[:4]
        if depth > 8:
            return []
        if t.startswith("list["):
            inner = t[5:-1]
            base = self.pool(inner, depth + 1)
            if not base:
                return [[]]
            out = [[]]
            out += [[b] for b in base[:24]]
            for a, b in itertools.islice(itertools.product(base[:5], repeat=2), 12):
                out.append([dc(a), dc(b)])
            for _ in range(4):
                n = self.rnd.randint(3, 6)
                out.append([dc(self.rnd.choice(base)) for _ in range(n)])
            return out
        if t.startswith("tuple["):
            parts = split_top(t[6:-1])
            pools = [self.pool(p, depth + 1)[:3] for p in parts]
            if any(not p for p in pools):
                return []
            return [tuple(c) for c in itertools.islice(itertools.product(*pools), 8)]
        if t.startswith("dict["):
            k, v = split_top(t[5:-1])
            ks, vs = self.pool(k, depth + 1), self.pool(v, depth + 1)
            if not ks or not vs:
                return [{}]
            out = [{}]
            for i in range(min(3, len(vs))):
                out.append({ks[j % len(ks)] if ks[j % len(ks)] != "" else "k": dc(vs[(i + j) % len(vs)]) for j in range(i + 1)})
            return out
        if t.startswith("ext:") or t.startswith("ext__"):
            kind = t.split(":")[-1].replace("ext__", "")
            if kind == "TokType":
                from pygments.token import Token as T
                return [T.Comment.Single, T.Comment.Multiline, T.Text, T.Text.Whitespace, T.Name, T.Name.Function, T.Keyword,
                        T.Punctuation, T.Operator, T.Literal.String, T.Comment.Preproc]
            if kind == "Path":
                from pathlib import Path
                return [Path("a.py"), Path("/abs/b.py")]
            if kind == "Console":
                from rich.console import Console
                return [Console()]
            return []
        if t in ("any", "Any"):
            return [0, "a"]
        return self.objects(t, depth)

    def objects(self, cname, depth):
        fields = self.classes.get(cname)
        if fields is None:
            return []
        mod = self.find_class(cname)
        if mod is None:
            return []
        cls = getattr(mod, cname)
        import inspect
        if inspect.isabstract(cls):
            out = []
            import pkgutil
            import codelimit
            for m in pkgutil.walk_packages(codelimit.__path__, "codelimit."):
                try:
                    importlib.import_module(m.name)
                except Exception:
                    pass
            for sub in cls.__subclasses__():
                if sub.__name__ in self.classes and not inspect.isabstract(sub):
                    out.extend(self.objects(sub.__name__, depth)[:3])
            return out
        all_fields = dict(fields)
        for b in cls.__mro__[1:]:
            all_fields = {**self.classes.get(b.__name__, {}), **all_fields}
        names = [f for f in all_fields if not f.startswith("@")]
        pools = {f: self.pool(all_fields[f], depth + 1) for f in names}
        if any(not p for p in pools.values()):
            return []   # not constructible from the declared schema: never hand out half-built objects
        out = []
        n = 24 if depth < 2 else (4 if depth < 3 else 2)
        # every second object is built by the real constructor when its parameters correspond to declared fields (so that
        # state the constructor derives - possibly added by a later change - is there); the others are laid out field by field
        ctor_map = None
        try:
            sig = inspect.signature(cls.__init__)
            ps = [q for q in list(sig.parameters.values())[1:] if q.kind in (q.POSITIONAL_OR_KEYWORD, q.KEYWORD_ONLY)]
            m = {}
            for q in ps:
                cands = [f for f in names if f == q.name or f.lstrip("_") == q.name]
                if cands:
                    m[q.name] = cands[0]
                elif q.default is inspect.Parameter.empty:
                    m = None
                    break
            if m:
                ctor_map = m
        except (TypeError, ValueError):
            ctor_map = None
        for i in range(n):
            vals = {}
            for j, f in enumerate(names):
                p = pools[f]
                # the first len(INTS) objects walk through every boundary value of every integer field
                vals[f] = dc(p[(i + j * 7) % len(p)] if i < len(INTS) else self.rnd.choice(p))
            o = None
            if ctor_map is not None and i % 2 == 0:
                try:
                    o = cls(**{q: vals[f] for q, f in ctor_map.items()})
                except Exception:
                    o = None
            if o is None:
                o = cls.__new__(cls)
                for f in names:
                    object.__setattr__(o, f, vals[f])
            out.append(o)
        return out

    _mods = {}

    def find_class(self, cname):
        if cname in self._mods:
            return self._mods[cname]
        import pkgutil
        import codelimit
        for m in pkgutil.walk_packages(codelimit.__path__, "codelimit."):
            if m.name.endswith("." + cname) or m.name.split(".")[-1] == cname:
                try:
                    mod = importlib.import_module(m.name)
                    if hasattr(mod, cname):
                        self._mods[cname] = mod
                        return mod
                except Exception:
                    continue
        for m in pkgutil.walk_packages(codelimit.__path__, "codelimit."):
            try:
                mod = importlib.import_module(m.name)
            except Exception:
                continue
            if hasattr(mod, cname) and getattr(getattr(mod, cname), "__module__", "") == m.name:
                self._mods[cname] = mod
                return mod
        self._mods[cname] = None
        return None


def dc(v):
    try:
        return copy.deepcopy(v)
    except Exception:
        return v


def describe(v, depth=0):
    if isinstance(v, (int, str, bool, type(None), float)):
        return v
    if isinstance(v, (list, tuple)):
        return [describe(x, depth + 1) for x in v][:8]
    if isinstance(v, dict):
        return {str(k): describe(x, depth + 1) for k, x in list(v.items())[:6]}
    d = getattr(v, "__dict__", None)
    if d is not None and depth < 3:
        return {"$class": type(v).__name__, **{k: describe(x, depth + 1) for k, x in d.items()}}
    return repr(v)[:60]


def resolve(key):
    mod, qn = key.split(":")
    m = importlib.import_module(mod)
    o = m
    for part in qn.split("."):
        o = getattr(o, part)
    return o


def profiles(rnd, budget):
    """Quality profiles: exhaustive for small totals, then near-ties, single-category, tiny shares in huge totals, random."""
    out = []
    tot = 0
    while len(out) < budget // 2:
        for a in range(tot + 1):
            for b in range(tot - a + 1):
                for c in range(tot - a - b + 1):
                    out.append([a, b, c, tot - a - b - c])
        tot += 1
    special = [[0, 0, 31, 62], [0, 0, 60000, 61], [0, 0, 61, 60000], [60, 20, 20, 0], [0, 1995, 198004, 3], [205, 3, 40731, 203],
               [1, 1, 1, 0], [0, 1, 1, 1], [100000, 0, 1, 0], [100000, 0, 0, 1], [99999, 0, 1, 1], [150000, 0, 0, 70],
               [0, 0, 1, 1], [0, 0, 1, 2], [333, 333, 333, 1], [10 ** 9, 0, 10 ** 4 + 1, 0], [10 ** 9, 0, 0, 10 ** 4 + 1]]
    out.extend(special)
    while len(out) < budget:
        scale = rnd.choice([10, 100, 1000, 10 ** 5, 10 ** 7])
        p = [rnd.randint(0, scale) for _ in range(4)]
        for k in range(4):
            if rnd.random() < 0.3:
                p[k] = rnd.choice([0, 1, 2])
        out.append(p)
    return out


def install_stub(key, holder):
    mod, qn = key.split(":")
    m = importlib.import_module(mod)
    cn, mn = qn.split(".", 1)
    def stub(*a, **k):
        v = list(holder["value"])
        speclib.CALLS.append((qn, v))       # clauses speak about it through call_result('Class.method')
        speclib.CALL_ARGS.append((qn, a, k, {}))
        return v
    setattr(getattr(m, cn), mn, stub)


def main():
    job = json.load(sys.stdin)
    rnd = random.Random(job.get("seed", 0))
    gen = Gen(job.get("classes", {}), rnd)
    fn = resolve(job["function"])
    params = dict(job["params"])
    if job.get("self_type"):
        params = {"self": job["self_type"], **params}
    names = list(params)
    pools = [gen.pool(params[n]) for n in names]
    if any(not p for p in pools):
        print(json.dumps({"evaluations": 0, "distinct_nontrivial": 0, "failures": [], "samples": [],
                          "fault": "inputs not constructible from the declared schema: " + ", ".join(n for n, p in zip(names, pools) if not p)}))
        return
    budget = job.get("budget", 300)
    combos = []
    total = 1
    for p in pools:
        total *= max(1, len(p))
    if total <= budget:
        combos = list(itertools.product(*pools))
    else:
        # each value of each pool at least once, then random combinations
        m = max(len(p) for p in pools)
        for i in range(m):
            combos.append(tuple(p[i % len(p)] for p in pools))
        while len(combos) < budget:
            combos.append(tuple(rnd.choice(p) for p in pools))
    stub_holder = None
    if job.get("stubs"):
        (skey, gname), = job["stubs"].items()
        stub_holder = {"value": None}
        install_stub(skey, stub_holder)
        vals = profiles(rnd, budget)
        base = combos[: max(1, min(len(combos), 3))]
        combos = [c + (v,) for v in vals for c in base[:1]]
        names = names + ["$stub"]
    if job.get("wrap"):
        speclib.wrap_calls(job["wrap"])
    env0 = speclib.base_env()
    evaluations = 0
    skipped_raise = 0
    seen = set()
    failures = []
    samples = []
    for combo in combos:
        args = {n: dc(v) for n, v in zip(names, combo) if n != "$stub"}
        if stub_holder is not None:
            stub_holder["value"] = combo[-1]
        env = dict(env0)
        env.update(args)
        try:
            if not all(bool(eval(r, dict(env))) for r in job.get("requires", {}).values()):
                continue
        except Exception:
            continue
        olds = {}
        for nm, text in job["ensures"].items():
            try:
                olds[nm] = speclib.OldEnv(text, env)
            except Exception:
                pass
        del speclib.TRACE[:]
        del speclib.CALLS[:]
        del speclib.CALL_ARGS[:]
        raised = None
        result = None
        try:
            result = fn(**args)
        except BaseException as e:  # noqa
            raised = e
        evaluations += 1
        key = json.dumps(describe(list(combo)), sort_keys=True, default=str)
        seen.add(key)
        if len(samples) < 3:
            samples.append({"inputs": describe(dict(zip(names, combo))), "result": repr(result)[:120]})
        if raised is not None:
            # generated objects need not satisfy the classes' invariants: an exception here says nothing
            skipped_raise += 1
            continue
        env["result"] = speclib.view(result)
        for nm, text in job["ensures"].items():
            if nm not in olds:
                continue
            oe = olds[nm]
            env["__old"] = oe.old
            try:
                ok = bool(eval(oe.rewritten(), env))
            except (NameError, ZeroDivisionError, OverflowError):
                continue    # the clause mentions locals of the function / is not evaluable on this input: left to the prover
            except (IndexError, KeyError, AttributeError, TypeError) as e:
                ok = False
            if not ok:
                failures.append({"name": f"{job['function']}::ensures:{nm}", "what": text,
                                 "inputs": describe(dict(zip(names, combo))), "observed": repr(result)[:200]})
        if len(failures) >= 5:
            break
    print(json.dumps({"evaluations": evaluations, "distinct_nontrivial": len(seen), "failures": failures[:5], "samples": samples,
                      "raised_and_skipped": skipped_raise}))


if __name__ == "__main__":
    try:
        main()
    except Exception:
        print(json.dumps({"fault": traceback.format_exc()[-1500:], "evaluations": 0, "distinct_nontrivial": 0, "failures": []}))
