"""Canonical-program generator (C01, C04, C05, C17, C03): programs are built from derivations, and the
expected measurements are computed from the derivation, never from the code under test.

Program = (language, text, expected, tags); expected = list of dict(name, start=(line,col), end=(line,col), length)."""
import itertools
import random

LANGS = {
    "C": ("c", "brace"), "C++": ("cpp", "brace"), "C#": ("cs", "brace"), "Java": ("java", "brace"),
    "JavaScript": ("js", "brace"), "TypeScript": ("ts", "brace"), "Python": ("py", "indent"),
}
NESTING = {"C": False, "C++": True, "C#": True, "Java": True, "JavaScript": True, "TypeScript": True, "Python": True}
BODY_LENGTHS = [1, 2, 14, 15, 16, 29, 30, 31, 59, 60, 61, 62]


class Func:
    def __init__(self, name, body, children_at=None, style=None, params="a", kind="function", marker=None):
        self.name = name
        self.body = body              # number of own statement lines (>=1)
        self.children_at = children_at or {}   # position in body -> Func
        self.style = style or {}
        self.params = params
        self.kind = kind              # function | arrow | async
        self.marker = marker          # nocl comment text on the name line


class Writer:
    def __init__(self, lang):
        self.lang = lang
        self.lines = []
        self.expected = []
        self.tags = set()

    def add(self, text):
        self.lines.append(text)
        return len(self.lines)      # 1-based line number

    def text(self):
        return "\n".join(self.lines) + "\n"


def header_c(lang, f, indent):
    ret = {"C": "int", "C++": "int", "C#": "int", "Java": "public int"}.get(lang, "")
    if lang in ("JavaScript", "TypeScript"):
        p = f.params if lang == "JavaScript" else ", ".join(x + ": number" if x.isidentifier() else x for x in f.params.split(", "))
        if f.kind == "arrow":
            return f"{indent}const {f.name} = ({p}) =>", len(indent) + 1, "const"
        if f.kind == "async":
            return f"{indent}async function {f.name}({p})", len(indent) + 1 + len("async "), "function"
        return f"{indent}function {f.name}({p})", len(indent) + 1, "function"
    params = ", ".join("int " + x if x.isidentifier() else x for x in f.params.split(", ")) if f.params else ""
    head = f"{indent}{ret} {f.name}({params})"
    if f.style.get("throws"):
        head += " throws " + f.style["throws"]
    return head, len(indent) + len(ret) + 2, "name"


STMTS_C = ["x = x + 1;", "foo(x);", 's = "}{()";', "y = (x + 2) * 3;"]
STMTS_PY = ["x = x + 1", "foo(x)", 's = "def f():"', "y = (x + 2) * 3"]


def emit_brace(w, f, depth, rnd, parent_counts):
    """Emit function f; returns set of line numbers that carry f's own code tokens."""
    lang = w.lang
    indent = "    " * depth
    head, start_col, _ = header_c(lang, f, indent)
    own = set()
    multi = f.style.get("multiline_header")
    if multi and "(" in head:
        i = head.index("(")
        l1 = w.add(head[:i + 1])
        own.add(l1)
        l2 = w.add(indent + "        " + head[i + 1:] + (" {" if not f.style.get("brace_next") else ""))
        own.add(l2)
        start_line = l1
        if f.style.get("brace_next"):
            own.add(w.add(indent + "{"))
        w.tags.add("multiline-header")
    else:
        if f.style.get("brace_next"):
            start_line = w.add(head)
            own.add(start_line)
            own.add(w.add(indent + "{"))
            w.tags.add("brace-next-line")
        else:
            start_line = w.add(head + " {")
            own.add(start_line)
    if f.marker is not None:
        w.lines[start_line - 1] += " " + f.marker
    inner = indent + "    "
    for k in range(f.body):
        if k in f.children_at:
            child_lines = emit_brace(w, f.children_at[k], depth + 1, rnd, own)
            if not NESTING[lang]:
                own |= child_lines
        if f.style.get("comments") and k % 3 == 1:
            w.add(inner + "// note { ( " + str(k))
            w.tags.add("comment-line")
        if f.style.get("blank") and k % 4 == 2:
            w.add("")
            w.tags.add("blank-line")
        if f.style.get("blocks") and k % 5 == 3 and k + 2 < f.body and not any(j in f.children_at for j in (k + 1, k + 2)):
            pass
        stmt = ";" if f.style.get("terse") else STMTS_C[k % len(STMTS_C)]     # terse: every statement line is a single token
        own.add(w.add(inner + stmt + ("  // t" if f.style.get("comments") and k % 4 == 0 else "")))
    if f.style.get("continuation") and lang in ("C", "C++"):
        own.add(w.add(inner + "y = 1 + \\"))
        own.add(w.add(inner + "    2;"))
        w.tags.add("continuation")
    if f.style.get("template"):
        # a template literal whose text starts right after the backtick at the end of the line; the literal's text is one
        # token beginning on the first line, the closing backtick and ';' begin on the last line
        own.add(w.add(inner + "t = `"))
        w.add("  line one")
        own.add(w.add("  line two`;"))
    if f.body in f.children_at:
        emit_brace(w, f.children_at[f.body], depth + 1, rnd, own)
    end_line = w.add(indent + "}" + (";" if f.kind == "arrow" else ""))
    own.add(end_line)
    w.expected.append({"name": f.name, "start": (start_line, start_col), "end": (end_line, len(indent) + 2),
                       "length": len(own), "depth": depth})
    return own


def emit_py(w, f, depth, rnd):
    indent = "    " * depth
    kw = "async def" if f.kind == "async" else "def"
    own = set()
    head = f"{indent}{kw} {f.name}({f.params}):"
    if f.style.get("multiline_header"):
        l1 = w.add(f"{indent}{kw} {f.name}(")
        own.add(l1)
        own.add(w.add(f"{indent}        {f.params}):"))
        start_line = l1
        w.tags.add("multiline-header")
    else:
        start_line = w.add(head)
        own.add(start_line)
    if f.marker is not None:
        w.lines[start_line - 1] += "  " + f.marker
    inner = indent + "    "
    last_line, last_len = None, None
    for k in range(f.body):
        if k in f.children_at:
            emit_py(w, f.children_at[k], depth + 1, rnd)
        if f.style.get("comments") and k % 3 == 1:
            w.add(inner + "# note def g(): " + str(k))
            w.tags.add("comment-line")
        if f.style.get("blank") and k % 4 == 2:
            w.add("")
            w.tags.add("blank-line")
        text = inner + ("pass" if f.style.get("terse") else STMTS_PY[k % len(STMTS_PY)])
        last_line = w.add(text + ("  # t" if f.style.get("comments") and k % 4 == 0 else ""))
        last_len = len(text)
        own.add(last_line)
    if f.style.get("continuation"):
        own.add(w.add(inner + "y = 1 + \\"))
        last_line = w.add(inner + "    2")
        last_len = len(inner + "    2")
        own.add(last_line)
        w.tags.add("continuation")
    if f.style.get("tail"):
        doc = f.style["tail"]
        parts = doc.split("\n")
        first = w.add(inner + parts[0])
        own.add(first)
        for extra in parts[1:]:
            w.add(extra)
        last_line = first + len(parts) - 1
        last_len = len(parts[-1]) if len(parts) > 1 else len(inner + parts[0])
    tail_child = f.children_at.get(f.body)
    if tail_child is not None:
        w.tags.add("nested-last")      # the shape itself is the tag, wherever the generator produces it
        emit_py(w, tail_child, depth + 1, rnd)
        ce = [e for e in w.expected if e["name"] == tail_child.name][-1]
        last_line, last_len = ce["end"][0], ce["end"][1] - 1
    start_col = len(indent) + 1 + (len("async ") if f.kind == "async" else 0)
    w.expected.append({"name": f.name, "start": (start_line, start_col), "end": (last_line, last_len + 1),
                       "length": len(own), "depth": depth})
    return own


def render(lang, items, rnd, preamble=True):
    """items: list of Func or ('global', text) at top level."""
    w = Writer(lang)
    wrap = lang in ("Java", "C#")
    depth0 = 0
    if lang == "C" and preamble:
        w.add("#include <stdio.h>")
        w.add("int x = 0;")
    if lang == "Python" and preamble:
        w.add("import os")
        w.add("x = 0")
    if wrap:
        w.add("class A {")
        depth0 = 1
    for it in items:
        if isinstance(it, Func):
            if LANGS[lang][1] == "brace":
                emit_brace(w, it, depth0, rnd, None)
            else:
                emit_py(w, it, depth0, rnd)
        else:
            for line in it[1].split("\n"):
                w.add(("    " * depth0) + line if line else "")
            w.tags.add(it[0])
        w.add("")
    if wrap:
        w.add("}")
    w.expected.sort(key=lambda e: e["start"])
    return w


GLOBALS = {
    "brace": [("control", "if (x) {\n    foo(x);\n}"), ("call", "foo(1);"), ("init", "int a[] = {1, 2};")],
    "js": [("control", "if (x) {\n    foo(x);\n}"), ("call", "foo(1);"), ("init", "const o = {a: 1};"),
           ("anonymous", "foo(function (a) {\n    return a;\n});")],
    "indent": [("control", "if x:\n    foo(x)"), ("call", "foo(1)"), ("classdef", "class K:\n    y = 1")],
}


def programs(lang, tier="quick", seed=0):
    rnd = random.Random(seed * 7919 + hash(lang) % 1000)
    flavour = LANGS[lang][1]
    n = 0
    names = iter("f%d" % i for i in itertools.count())

    def fresh():
        return next(names)
    # 1. single functions, every boundary body length, two brace styles
    for b in BODY_LENGTHS:
        for style in ({}, {"brace_next": True}, {"comments": True, "blank": True}, {"multiline_header": True}):
            if flavour == "indent" and style.get("brace_next"):
                continue
            yield render(lang, [Func(fresh(), b, style=dict(style))], rnd)
    yield render(lang, [Func(fresh(), 3, style={"continuation": True}), Func(fresh(), 2)], rnd)
    if lang in ("C", "C++"):
        yield render(lang, [("macro", "#define M(x) \\\n    foo(x)"), Func(fresh(), 3), ("macro", "#define N(x) \\\n    { foo(x); }"), Func(fresh(), 2)], rnd)
    # 2. two / three functions with global code in between
    gl = GLOBALS["js" if lang in ("JavaScript", "TypeScript") else flavour]
    for g in gl:
        if lang in ("Java", "C#") and g[0] in ("control", "call"):
            continue   # statements are not valid at class level
        yield render(lang, [Func(fresh(), 3), g, Func(fresh(), 16, style={"comments": True})], rnd)
        yield render(lang, [g, Func(fresh(), 2), Func(fresh(), 31), g], rnd)
    # 3. nesting (languages that nest): child first / middle / last, depth 2
    if NESTING[lang] and lang not in ("C++", "C#", "Java"):
        for pos in (0, 1, 3):
            parent = Func(fresh(), 3, {pos: Func(fresh(), 2)})
            w = render(lang, [parent], rnd)
            w.tags.add(f"nested-{['first', 'middle', 'x', 'last'][pos]}")
            yield w
        w = render(lang, [Func(fresh(), 4, {1: Func(fresh(), 2), 3: Func(fresh(), 1)})], rnd)
        w.tags.add("two-children")
        yield w
        # depth 3
        w = render(lang, [Func(fresh(), 3, {1: Func(fresh(), 3, {1: Func(fresh(), 1)})})], rnd)
        w.tags.add("nesting-depth-3")
        yield w
        # the same shapes with single-token statement lines (a token lost or gained moves a whole line)
        t = {"terse": True}
        w = render(lang, [Func(fresh(), 3, {1: Func(fresh(), 2, style=dict(t))}, style=dict(t))], rnd)
        w.tags.add("terse")
        yield w
        w = render(lang, [Func(fresh(), 4, {1: Func(fresh(), 2, style=dict(t)), 2: Func(fresh(), 1, style=dict(t))}, style=dict(t))], rnd)
        w.tags.add("terse")
        yield w
        for mid_pos, in_pos in ((1, 1), (0, 0), (1, 2), (2, 0)):
            w = render(lang, [Func(fresh(), 3, {mid_pos: Func(fresh(), 3, {in_pos: Func(fresh(), 1, style=dict(t))}, style=dict(t))},
                                   style=dict(t))], rnd)
            w.tags.add("nesting-depth-3")
            w.tags.add("terse")
            yield w
    # 4. special header shapes
    if lang in ("JavaScript", "TypeScript"):
        yield render(lang, [Func(fresh(), 2, kind="arrow")], rnd)
        w = render(lang, [Func(fresh(), 2, kind="async")], rnd)
        w.tags.add("async")
        yield w
        w = render(lang, [Func(fresh(), 2, params="a = {b: 1}")], rnd)
        w.tags.add("brace-group-in-params")
        yield w
        w = render(lang, [Func(fresh(), 2, params="a = bar(1)")], rnd)
        w.tags.add("call-in-default")
        yield w
    if lang == "Python":
        w = render(lang, [Func(fresh(), 2, kind="async")], rnd)
        w.tags.add("async")
        yield w
        w = render(lang, [Func(fresh(), 2, params="a=bar(1)")], rnd)
        w.tags.add("call-in-default")
        yield w
        w = render(lang, [Func(fresh(), 2, params="a={1: 2}")], rnd)
        w.tags.add("brace-group-in-params")
        yield w
    if lang in ("C", "C++"):
        w = render(lang, [Func(fresh(), 2, params="int (*cb)(int)")], rnd)
        w.tags.add("parens-in-params")
        yield w
    if lang == "Java":
        for n_exc in (1, 3, 7, 12):
            f = Func(fresh(), 3, style={"throws": ", ".join(f"java.io.E{i}Exception" if i % 2 else f"E{i}" for i in range(n_exc))})
            w = render(lang, [Func(fresh(), 2), f], rnd)
            w.tags.add("throws-clause")
            yield w
    if lang == "Python":
        for doc in ('"""one line"""', '"""first\n    second\n    third line"""'):
            f = Func(fresh(), 2, style={"tail": doc})
            w = render(lang, [f, Func(fresh(), 1)], rnd)
            w.tags.add("multiline-last-token" if "\n" in doc else "docstring-last")
            yield w
    if lang in ("JavaScript", "TypeScript"):
        f = Func(fresh(), 2, style={"template": True})
        w = render(lang, [f], rnd)
        w.tags.add("multiline-template-literal")
        yield w
    if tier == "thorough":
        for _ in range(150):
            k = rnd.randint(1, 5)
            items = []
            for _i in range(k):
                f = Func(fresh(), rnd.choice(BODY_LENGTHS[:8] + [3, 4, 5]),
                         style={"comments": rnd.random() < .5, "blank": rnd.random() < .5, "brace_next": rnd.random() < .3})
                if NESTING[lang] and lang not in ("C++", "C#", "Java") and rnd.random() < .4:
                    f.children_at = {rnd.randint(0, f.body): Func(fresh(), rnd.randint(1, 3))}
                items.append(f)
                if rnd.random() < .3 and not (lang in ("Java", "C#")):
                    items.append(rnd.choice(gl))
            yield render(lang, items, rnd)
