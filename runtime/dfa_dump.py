#!/venv/bin/python
"""Dump the shipped header/follow-up automata, built by the real code (extract_headers with get_headers intercepted,
real expression_to_nfa / nfa_to_dfa), as JSON object graphs for the prover (C15)."""
import importlib
import json
import sys


def main():
    from codelimit.languages import Languages
    from codelimit.common.gsm.Expression import expression_to_nfa, nfa_to_dfa
    out = []
    for name, lang in Languages.by_name.items():
        mod = importlib.import_module(type(lang).__module__)
        captured = []

        def fake(tokens, expression, followed_by=None, _c=captured):
            _c.append((expression, followed_by))
            return []
        orig = mod.get_headers
        mod.get_headers = fake
        try:
            lang.extract_headers([])
        finally:
            mod.get_headers = orig
        for i, (e, f) in enumerate(captured):
            for label, expr in ((f"header{i}", e), (f"followup{i}", f)):
                if expr is None:
                    continue
                dfa = nfa_to_dfa(expression_to_nfa(expr))
                out.append(dump(name, label, dfa))
    json.dump(out, sys.stdout)


def dump(lang, label, dfa):
    states, preds = {}, {}
    order = []

    def pred(p):
        if id(p) in preds:
            return id(p)
        d = {"cls": f"{type(p).__module__}:{type(p).__name__}", "fields": {}}
        preds[id(p)] = d
        for k, v in vars(p).items():
            if hasattr(v, "accept"):
                d["fields"][k] = {"$pred": pred(v)}
            elif isinstance(v, (str, int, bool)) or v is None:
                d["fields"][k] = v
            else:
                d["fields"][k] = {"$repr": repr(v)}
        return id(p)

    def state(s):
        if id(s) in states:
            return id(s)
        d = {"id": s.id, "transitions": [], "epsilon": len(s.epsilon_transitions)}
        states[id(s)] = d
        order.append(id(s))
        for p, t in s.transition:
            d["transitions"].append({"pred": pred(p), "target": state(t)})
        return id(s)

    start = state(dfa.start)
    return {"language": lang, "label": label, "start": start, "accepting": [id(s) for s in dfa.accepting if id(s) in states],
            "states": {str(k): v for k, v in states.items()}, "preds": {str(k): v for k, v in preds.items()}}


if __name__ == "__main__":
    main()
