#!/venv/bin/python
"""Bounded stand-ins that need a file system: C09 (cache vs fresh over edit histories), C10 (damaged cache),
C11 (which files are analysed), C12 (check vs scan), C06 (determinism), C03 (ways of naming a file).

usage: h_fs.py <PROP> <tier> <seed>   |   h_fs.py --replay <file>
All work happens in a private temporary directory that is removed at the end."""
import contextlib
import hashlib
import io
import itertools
import json
import os
import random
import shutil
import subprocess
import sys
import tempfile
import time
import traceback
from pathlib import Path

SUPPORTED = {"py": "Python", "js": "JavaScript", "ts": "TypeScript", "c": "C", "java": "Java", "cpp": "C++", "cs": "C#", "h": "C"}


def body(ext, name, n):
    """a function of n lines (n >= 2) in the language of ext"""
    if ext == "py":
        return f"def {name}():\n" + "".join(f"    x{i} = {i}\n" for i in range(n - 1))
    if ext == "java":
        return "class A {\n" + f"  void {name}() {{\n" + "".join(f"    int x{i} = {i};\n" for i in range(n - 2)) + "  }\n}\n"
    head = {"js": f"function {name}() {{\n", "ts": f"function {name}() {{\n"}.get(ext, f"int {name}() {{\n")
    return head + "".join(f"    x{i} = {i};\n" for i in range(n - 2)) + "}\n"


CONTENTS = {"short": lambda ext: body(ext, "small", 3), "long": lambda ext: body(ext, "big", 35),
            "other": lambda ext: body(ext, "tiny", 2) + body(ext, "huge", 65), "empty": lambda ext: ""}


@contextlib.contextmanager
def quiet():
    buf = io.StringIO()
    with contextlib.redirect_stdout(buf), contextlib.redirect_stderr(buf):
        yield buf


@contextlib.contextmanager
def cwd(path):
    old = os.getcwd()
    os.chdir(path)
    try:
        yield
    finally:
        os.chdir(old)


def set_excludes(lst):
    from codelimit.common.Configuration import Configuration
    Configuration.exclude = list(lst)
    Configuration.verbose = True   # plain table instead of the Live display


def scan(root):
    """runs the real scan command; returns the parsed cache document"""
    from codelimit.commands.scan import scan_command
    with quiet():
        scan_command(Path(root))
    p = Path(root) / ".codelimit_cache" / "codelimit.json"
    return json.loads(p.read_text())


def norm(doc):
    d = json.loads(json.dumps(doc))
    for k in ("uuid", "timestamp", "root"):
        d.pop(k, None)
    files = d.get("codebase", {}).get("files", {})
    d["codebase"]["files"] = {k: files[k] for k in sorted(files)}
    d["codebase"]["totals"] = {k: d["codebase"]["totals"][k] for k in sorted(d["codebase"].get("totals", {}))}
    tree = d["codebase"].get("tree", {})
    d["codebase"]["tree"] = {k: {"entries": sorted(tree[k]["entries"]), "profile": tree[k]["profile"]} for k in sorted(tree)}
    return d


def fresh(root, tmp):
    """from-scratch scan of a copy of the tree without any cache"""
    dst = Path(tmp) / "fresh_copy"
    if dst.exists():
        shutil.rmtree(dst)
    shutil.copytree(root, dst, ignore=shutil.ignore_patterns(".codelimit_cache"))
    doc = scan(dst)
    shutil.rmtree(dst)
    return doc


# ------------------------------------------------------------------------------------------- C04 (through the scan command and its cache)
def measurements_of(doc, rel):
    e = doc["codebase"]["files"].get(rel)
    return None if e is None else [(m["unit_name"], m["value"], m["start"]["line"], m["end"]["line"]) for m in e["measurements"]]


def run_c04(tmp, tier, rnd):
    """scan, insert layout-only lines, scan again (the second scan finds the cache of the first): names, order and lengths are
    unchanged and every line number moves by the number of lines inserted above it"""
    fails, n = [], 0
    comment = {"py": "# note", "js": "// note", "ts": "// note", "c": "/* note */", "java": "// note", "cpp": "// note", "cs": "// note",
               "h": "/** @code x @endcode @interface Foo #import <a.h> */", "hpp": "// template<class T> namespace x { using namespace std;"}
    for ext in ("py", "js", "ts", "c", "java", "cpp", "cs", "h", "hpp"):
        base = body(ext, "small", 4) + body(ext, "big", 35) if ext != "java" else body(ext, "big", 35)
        lines = base.split("\n")
        edits = []
        for filler in ("", "    ", "\t", comment[ext], comment["h"] if ext in ("c", "cpp", "h", "hpp") else comment[ext].replace("note", "@endcode #import def function class")):
            for at in (0, 1, len(lines) // 2, len(lines) - 1):
                edits.append((filler, at, 1))
            edits.append((filler, 0, 3))
        if tier != "quick":
            for _ in range(40):
                edits.append((rnd.choice(["", "  ", comment[ext]]), rnd.randint(0, len(lines) - 1), rnd.randint(1, 4)))
        for filler, at, k in edits:
            n += 1
            root = Path(tmp) / "c04"
            if root.exists():
                shutil.rmtree(root)
            root.mkdir()
            rel = "m." + ext
            (root / rel).write_text(base)
            set_excludes([])
            try:
                before = measurements_of(scan(root), rel)
                new = lines[:at] + [filler if ext != "py" or filler.strip() == "" or at == 0 else "    " + filler] * k + lines[at:]
                (root / rel).write_text("\n".join(new))
                after = measurements_of(scan(root), rel)
            except Exception as e:  # noqa
                fails.append(("cached-scan:exception", f"{ext}: {type(e).__name__}: {e}", None))
                continue

            def shift(line):
                return line + (k if line - 1 >= at else 0)
            if before is None or after is None:
                fails.append(("cached-scan:file-not-reported", f"{rel}: {'the original' if before is None else 'the edited'} file is not in the report "
                              f"({k} line(s) {filler!r} inserted before line {at + 1})", None))
                continue
            want = None if before is None else [(nm, v, shift(a), shift(b)) for nm, v, a, b in before]
            # a line inserted inside a function's span moves its end but is not counted; the start moves only if above
            if after != want:
                fails.append(("cached-scan:changed", f"{ext}: {k} line(s) {filler!r} inserted before line {at + 1}, then a scan that finds the "
                              f"previous cache: expected {want}, reported {after}", None))
    # the findings list (functions longer than 30 lines, across files): layout-only edits leave its order unchanged
    from codelimit.common.report.ReportReader import ReportReader

    def findings(root_):
        rep = ReportReader.from_json((Path(root_) / ".codelimit_cache" / "codelimit.json").read_text())
        return [(u.file, u.measurement.unit_name, u.measurement.value) for u in rep.all_report_units_sorted_by_length_asc(30)]
    for names in (("a.py", "b.py", "c.js"), ("z.c", "m.c", "a.c")):
        for target in range(len(names)):
            for k in (1, 3, 40):
                n += 1
                root = Path(tmp) / "c04f"
                if root.exists():
                    shutil.rmtree(root)
                root.mkdir()
                for i, nm in enumerate(names):
                    ext = nm.rsplit(".", 1)[-1]
                    (root / nm).write_text("\n" * i + body(ext, "same", 35) + body(ext, "other", 35 + i))
                set_excludes([])
                try:
                    scan(root)
                    before = findings(root)
                    f = root / names[target]
                    f.write_text((comment[names[target].rsplit(".", 1)[-1]] + "\n") * k + f.read_text())
                    scan(root)
                    after = findings(root)
                except Exception as e:  # noqa
                    fails.append(("findings:exception", f"{type(e).__name__}: {e}", None))
                    continue
                if after != before:
                    fails.append(("findings:order-changed", f"{k} comment line(s) on top of {names[target]}: findings were {before}, are {after}", None))
    return fails, n


# ------------------------------------------------------------------------------------------- C09
def apply_op(root, op, state):
    kind = op[0]
    if kind == "write":
        _, p, k = op
        f = Path(root) / p
        f.parent.mkdir(parents=True, exist_ok=True)
        f.write_text(CONTENTS[k](p.rsplit(".", 1)[-1]))
    elif kind == "delete":
        f = Path(root) / op[1]
        if f.exists():
            f.unlink()
    elif kind == "rename":
        a, b = Path(root) / op[1], Path(root) / op[2]
        if a.exists():
            b.parent.mkdir(parents=True, exist_ok=True)
            a.rename(b)
    elif kind == "write-old":
        # new content whose modification time lies in the past (restored backup, `mv` of an older file, `touch -d`)
        _, p, k = op
        f = Path(root) / p
        f.parent.mkdir(parents=True, exist_ok=True)
        f.write_text(CONTENTS[k](p.rsplit(".", 1)[-1]))
        old = time.time() - 7200
        os.utime(f, (old, old))
    elif kind == "copy":
        a, b = Path(root) / op[1], Path(root) / op[2]
        if a.exists():
            b.parent.mkdir(parents=True, exist_ok=True)
            shutil.copy(a, b)
    elif kind == "touch":
        f = Path(root) / op[1]
        if f.exists():
            os.utime(f, None)
    elif kind == "swap":
        a, b = Path(root) / op[1], Path(root) / op[2]
        if a.exists() and b.exists():
            ta, tb = a.read_text(), b.read_text()
            a.write_text(tb)
            b.write_text(ta)
    elif kind == "layout":
        # edits that change only the layout: a blank line on top, a whitespace-only line inside, trailing spaces
        f = Path(root) / op[1]
        if f.exists():
            ls = f.read_text().split("\n")
            how = op[2]
            if how == "blank-top":
                ls.insert(0, "")
            elif how == "ws-line" and len(ls) > 1:
                ls.insert(1, "   ")
            elif how == "trailing" and ls:
                ls[0] = ls[0] + "  "
            f.write_text("\n".join(ls))
    elif kind == "exclude":
        state["exclude"] = [] if state["exclude"] else ["sub"]
    elif kind in ("cache-other-version", "cache-bad-checksum", "cache-no-version", "cache-null-version"):
        cp = Path(root) / ".codelimit_cache" / "codelimit.json"
        if cp.exists():
            d = json.loads(cp.read_text())
            if kind == "cache-other-version":
                d["version"] = "0.0.1"
            if kind == "cache-no-version":
                d.pop("version", None)
            if kind == "cache-null-version":
                d["version"] = None
            for k, v in d["codebase"]["files"].items():
                if kind == "cache-bad-checksum":
                    v["checksum"] = "0" * 32
                # poison the cached measurements: if this entry is (wrongly) reused the report shows it
                v["measurements"] = [{"unit_name": "POISON", "start": {"line": 1, "column": 1}, "end": {"line": 99, "column": 1}, "value": 99}]
                v["loc"] = 99
            cp.write_text(json.dumps(d))


def c09_sequences(tier, rnd):
    paths = ["a.py", "b.js", "sub/c.py"]
    ops = [("write", "a.py", "long"), ("write", "a.py", "other"), ("write", "sub/c.py", "short"), ("delete", "a.py"), ("rename", "a.py", "d.py"),
           ("rename", "b.js", "b.py"), ("touch", "b.js"), ("swap", "a.py", "sub/c.py"), ("exclude",), ("cache-other-version",),
           ("cache-bad-checksum",), ("cache-no-version",), ("cache-null-version",), ("write", "b.js", "long"), ("delete", "sub/c.py"),
           ("layout", "sub/c.py", "blank-top"), ("layout", "a.py", "ws-line"), ("layout", "b.js", "trailing"),
           ("copy", "a.py", "a_copy.js"), ("copy", "b.js", "sub/b_copy.ts"), ("write", "e.py", "empty"), ("write", "e.c", "empty"),
           ("write-old", "a.py", "other"), ("write-old", "sub/c.py", "short")]
    seqs = [[o] for o in ops]
    seqs += [list(c) for c in itertools.permutations(ops, 2)][:: (3 if tier == "quick" else 1)]
    for _ in range(30 if tier == "quick" else 400):
        seqs.append([rnd.choice(ops) for _ in range(rnd.randint(3, 6))])
    return seqs


def run_c09(seq, tmp):
    root = Path(tmp) / "proj"
    if root.exists():
        shutil.rmtree(root)
    root.mkdir()
    state = {"exclude": []}
    for p, k in (("a.py", "short"), ("b.js", "short"), ("sub/c.py", "long")):
        apply_op(root, ("write", p, k), state)
    fails = []
    set_excludes(state["exclude"])
    try:
        scan(root)
        for i, op in enumerate(seq):
            apply_op(root, op, state)
            set_excludes(state["exclude"])
            got = norm(scan(root))
            want = norm(fresh(root, tmp))
            if got != want:
                diff = [k for k in set(got["codebase"]["files"]) | set(want["codebase"]["files"])
                        if got["codebase"]["files"].get(k) != want["codebase"]["files"].get(k)]
                fails.append(("cached-differs-from-fresh", f"after {seq[:i + 1]}: files differing {diff or 'totals/tree'}"))
                break
    except Exception as e:  # noqa
        fails.append(("exception", f"{type(e).__name__}: {e} during {seq}"))
    return fails


def check_version_refusal(tmp):
    """report/findings must refuse a cache written by another version"""
    import typer
    from rich.console import Console
    from codelimit.utils import read_report
    root = Path(tmp) / "projv"
    if root.exists():
        shutil.rmtree(root)
    root.mkdir()
    (root / "a.py").write_text(body("py", "f", 3))
    set_excludes([])
    scan(root)
    cp = root / ".codelimit_cache" / "codelimit.json"
    fails = []
    for ver in ("0.0.1", "0.18.2", "0.18.1rc1", None):
        d = json.loads(cp.read_text())
        if ver is None:
            d.pop("version", None)
        else:
            d["version"] = ver
        cp.write_text(json.dumps(d))
        try:
            with quiet():
                read_report(cp, Console())
            fails.append(("foreign-version-displayed", f"a report with version {ver!r} was accepted for display"))
        except typer.Exit:
            pass
        except Exception as e:  # noqa
            fails.append(("exception", f"read_report on version {ver!r}: {type(e).__name__}: {e}"))
    return fails


# ------------------------------------------------------------------------------------------- C10
def c10_faults(doc_text, tier, rnd):
    faults = [("missing", None), ("empty", ""), ("not-json", "hello"), ("json-list", "[]"), ("json-null", "null"), ("json-number", "3"),
              ("dir-without-file", "<dir-only>"), ("dir-without-markers", "<no-markers>")]
    step = 9 if tier == "quick" else 1
    for off in range(1, len(doc_text), step):
        faults.append((f"truncated@{off}", doc_text[:off]))
    d = json.loads(doc_text)

    def variants(obj, path=()):
        if isinstance(obj, dict):
            for k in list(obj):
                c = json.loads(json.dumps(d))
                t = c
                for p in path:
                    t = t[p]
                del t[k]
                yield (f"missing-key:{'/'.join(map(str, path + (k,)))}", json.dumps(c))
                for wrong in (None, 5, "s", [], {}):
                    c = json.loads(json.dumps(d))
                    t = c
                    for p in path:
                        t = t[p]
                    if type(t[k]) is type(wrong):
                        continue
                    t[k] = wrong
                    yield (f"wrong-type:{'/'.join(map(str, path + (k,)))}={wrong!r}", json.dumps(c))
                yield from variants(obj[k], path + (k,))
        elif isinstance(obj, list) and obj:
            yield from variants(obj[0], path + (0,))
    vs = list(variants(d))
    if tier == "quick":
        rnd.shuffle(vs)
        vs = vs[:80]

    # near-miss types on every number: a boolean or a float where an integer belongs (bool is a subclass of int)
    def numbers(obj, path=()):
        if isinstance(obj, dict):
            for k in obj:
                yield from numbers(obj[k], path + (k,))
        elif isinstance(obj, list):
            for i, x in enumerate(obj[:2]):
                yield from numbers(x, path + (i,))
        elif isinstance(obj, int) and not isinstance(obj, bool):
            yield path
    near = []
    for path in numbers(d):
        for wrong in (True, False, 1.5):
            c = json.loads(json.dumps(d))
            t = c
            for p_ in path[:-1]:
                t = t[p_]
            t[path[-1]] = wrong
            near.append((f"wrong-type:{'/'.join(map(str, path))}={wrong!r}", json.dumps(c)))
    return faults + vs + near


def run_c10(tmp, tier, rnd):
    root = Path(tmp) / "projc"
    fails, n = [], 0
    if root.exists():
        shutil.rmtree(root)
    root.mkdir()
    (root / "a.py").write_text(body("py", "f", 35))
    (root / "sub").mkdir()
    (root / "sub" / "b.js").write_text(body("js", "g", 3))
    set_excludes([])
    good = scan(root)
    want = norm(good)
    cdir = root / ".codelimit_cache"
    cp = cdir / "codelimit.json"
    doc_text = cp.read_text()
    for name, content in c10_faults(doc_text, tier, rnd):
        n += 1
        if cdir.exists():
            shutil.rmtree(cdir)
        if name == "missing":
            pass
        elif content == "<dir-only>":
            cdir.mkdir()
            (cdir / "CACHEDIR.TAG").write_text("x")
        elif content == "<no-markers>":
            cdir.mkdir()
        else:
            cdir.mkdir()
            cp.write_text(content)
        try:
            got = scan(root)
        except BaseException as e:  # noqa
            fails.append((name.split("@")[0].split(":")[0] + ":scan-fails", f"cache fault {name}: {type(e).__name__}: {str(e)[:120]}", name))
            continue
        try:
            got_n = norm(got)
        except Exception as e:  # noqa
            fails.append((name.split("@")[0].split(":")[0] + ":invalid-cache-left-behind",
                          f"cache fault {name}: the cache file after the scan is not a complete report document ({type(e).__name__})", name))
            continue
        if got_n != want:
            fails.append((name.split("@")[0].split(":")[0] + ":tainted-report", f"cache fault {name}: report differs from the fresh scan", name))
            continue
        # the scan must leave a complete, valid cache behind and the next scan must work from it
        try:
            again = scan(root)
            if norm(again) != want:
                fails.append((name.split("@")[0].split(":")[0] + ":second-scan-differs", f"cache fault {name}", name))
        except BaseException as e:  # noqa
            fails.append((name.split("@")[0].split(":")[0] + ":second-scan-fails", f"cache fault {name}: {type(e).__name__}", name))
    # real crash points: a scan in a child process whose file size limit cuts the cache write (the kernel stops the write at
    # that many bytes and the process dies or fails); whatever it leaves behind, the next scan succeeds and repairs the cache
    sizes = [0, 1, 7, 40, 64, 200, 1000, len(doc_text) - 1] if tier == "quick" else list(range(0, len(doc_text) + 40, 23))
    for start_state in ("no-cache", "valid-cache"):
        for size in sizes:
            n += 1
            if cdir.exists():
                shutil.rmtree(cdir)
            if start_state == "valid-cache":
                scan(root)
            code = ("import resource, signal, sys; signal.signal(signal.SIGXFSZ, signal.SIG_DFL); "
                    f"resource.setrlimit(resource.RLIMIT_FSIZE, ({size}, {size})); sys.argv = ['x', '--interrupted-scan', {str(root)!r}]; "
                    f"exec(open({os.path.abspath(__file__)!r}).read())")
            subprocess.run([sys.executable, "-c", code], capture_output=True, text=True, timeout=300)
            name = f"write-cut-at-{size}-bytes-from-{start_state}"
            left = sorted(p_.name for p_ in cdir.iterdir()) if cdir.exists() else []
            try:
                got = scan(root)
                if norm(got) != want:
                    fails.append(("interrupted-write:tainted-report", f"{name} (left behind: {left}): report differs from the fresh scan", name))
                elif norm(scan(root)) != want:
                    fails.append(("interrupted-write:second-scan-differs", f"{name} (left behind: {left})", name))
            except BaseException as e:  # noqa
                fails.append(("interrupted-write:scan-fails", f"{name} (left behind: {left}): {type(e).__name__}: {str(e)[:120]}", name))
    return fails, n


# ------------------------------------------------------------------------------------------- C11 / C12
DIRS = ["", "src", "src/sub", "src/.gen", "lib", "lib/tests", ".hid", "tests", "build", "node_modules", "venv", "docs/api", "src/docs", "src/generated", "generated"]
FILES = ["a.py", "b.js", "c.ts", "d.c", "e.txt", "Makefile", ".h.py", "F.java", "noext", "SConstruct", "LICENSE", "SConscript", "g.h"]
# names without an extension that Pygments maps to a supported language (its PythonLexer lists them)
NAME_LANG = {"SConstruct": "py", "SConscript": "py"}


def ext_of(name):
    return NAME_LANG.get(name, name.rsplit(".", 1)[-1] if "." in name else "")
DEFAULT_EXCL = [".bzr", ".direnv", ".eggs", ".git", ".git-rewrite", ".hg", ".ipynb_checkpoints", ".mypy_cache", ".nox", ".pants.d",
                ".pytest_cache", ".pytype", ".ruff_cache", ".svn", ".tox", ".venv", ".vscode", "__pypackages__", "_build", "buck-out",
                "build", "dist", "node_modules", "venv", "test", "tests"]
EXCL_SETS = [[], ["lib"], ["sub/"], ["*.js"], ["src/sub"], ["src/*"], ["docs", "*.ts"], ["/docs"], ["api/"], ["/generated"]]


def matches(pattern, rel):
    """gitignore semantics for the unambiguous pattern classes of the statement"""
    import fnmatch
    parts = rel.split("/")
    if pattern.endswith("/"):
        name = pattern[:-1]
        if "/" in name.strip("/"):
            return rel.startswith(name.strip("/") + "/")
        return name in parts[:-1]
    anchored = "/" in pattern.strip("/") or pattern.startswith("/")
    pat = pattern.strip("/")
    if anchored:
        pp = pat.split("/")
        if len(parts) < len(pp):
            return False
        return all(fnmatch.fnmatchcase(a, b) for a, b in zip(parts[:len(pp)], pp))
    return any(fnmatch.fnmatchcase(p, pat) for p in parts)


def expected_files(root, excludes):
    out = {}
    for dirpath, dirs, files in os.walk(root):
        for f in files:
            full = os.path.join(dirpath, f)
            rel = os.path.relpath(full, root).replace(os.sep, "/")
            parts = rel.split("/")
            if any(p.startswith(".") for p in parts):
                continue
            if any(matches(p, rel) for p in DEFAULT_EXCL + excludes):
                continue
            ext = ext_of(f)
            if ext not in SUPPORTED:
                continue
            out[rel] = (SUPPORTED[ext], hashlib.md5(open(full, "rb").read()).hexdigest())
    return out


def make_tree(root, rnd, dirs=None):
    root = Path(root)
    if root.exists():
        shutil.rmtree(root)
    root.mkdir(parents=True)
    chosen = dirs if dirs is not None else rnd.sample(DIRS, rnd.randint(3, 7))
    for d in chosen:
        (root / d).mkdir(parents=True, exist_ok=True)
        for f in rnd.sample(FILES, rnd.randint(1, 4)):
            ext = ext_of(f)
            n = rnd.choice([3, 35, 65])
            content = body(ext, "fn", n) if ext in ("py", "js", "ts", "c", "java", "h") else "text\n"
            if ext == "h" and rnd.random() < 0.5:
                content = "/** @code x @endcode */\n" + content
            if rnd.random() < 0.4:
                ls = content.split("\n")
                ls.insert(rnd.randint(0, len(ls) - 1), rnd.choice(["", "   ", "\t"]))
                content = "\n" + "\n".join(ls) + rnd.choice(["", "\n", "\r\n"])
            (root / d / f).write_bytes(content.encode())
    return chosen


def run_c11(tmp, tier, rnd):
    from codelimit.common.Scanner import scan_path
    fails, n = [], 0
    cases = []
    for ex in EXCL_SETS:
        for via in ("option", "gitignore"):
            cases.append((None, ex, via))
    cases.append((DIRS, [], "option"))
    for _ in range(10 if tier == "quick" else 150):
        cases.append((None, rnd.choice(EXCL_SETS), rnd.choice(["option", "gitignore", "both"])))
    cases_done = []
    for dirs, ex, via in cases:
        root = Path(tmp) / "w" / "tree"
        chosen = make_tree(root, rnd, dirs)
        opt = ex if via in ("option", "both") else []
        if via in ("gitignore", "both"):
            # with and without a final newline, with a comment and a blank line, with CRLF line ends
            style = len(cases_done) % 4
            cases_done.append(style)
            text = "\n".join(ex) + ("\n" if style == 0 else "")
            if style == 2:
                text = "# generated\n\n" + "\n".join(ex)
            if style == 3:
                text = "\r\n".join(ex) + "\r\n"
            (root / ".gitignore").write_bytes(text.encode())
        want = expected_files(str(root), ex)
        for mode in ("absolute", "relative", "dotdot"):
            n += 1
            set_excludes(opt)
            try:
                if mode == "absolute":
                    cb = scan_path(root)
                elif mode == "relative":
                    with cwd(root.parent):
                        cb = scan_path(Path("tree"))
                else:
                    with cwd(root / chosen[0] if chosen[0] else root):
                        rel = os.path.relpath(root, os.getcwd())
                        cb = scan_path(Path(rel if rel != "." else "../tree") if rel != "." else Path("../tree"))
            except Exception as e:  # noqa
                fails.append(("exception", f"scan_path ({mode}) excludes {ex} via {via}: {type(e).__name__}: {e}", None))
                continue
            got = {k.replace(os.sep, "/"): (v.language, v.checksum()) for k, v in cb.files.items()}
            if got != want:
                extra = sorted(set(got) - set(want))
                missing = sorted(set(want) - set(got))
                wrong = sorted(k for k in set(got) & set(want) if got[k] != want[k])
                fails.append(("file-set", f"root {mode}, excludes {ex} via {via}, dirs {chosen}: analysed but should not {extra}; not analysed "
                              f"but should {missing}; wrong language/checksum {wrong}", None))
    # the real `scan` command function: --exclude together with a .codelimit.yml that has its own exclude list
    from codelimit.common.Configuration import Configuration
    import codelimit.__main__ as cli
    for opt, yml in ((["lib"], ["*.js"]), (["*.ts"], []), ([], ["src/sub"]), (["docs"], ["lib", "*.c"])):
        root = Path(tmp) / "w" / "cli"
        make_tree(root, rnd, ["", "src", "src/sub", "lib", "docs/api"])
        (root / ".codelimit.yml").write_text("exclude:\n" + "".join(f"  - \"{p}\"\n" for p in yml) if yml else "verbose: true\n")
        Configuration.exclude = []
        Configuration.verbose = True
        n += 1
        try:
            with quiet():
                cli.scan(path=root, exclude=list(opt), verbose=True)
            doc = json.loads((root / ".codelimit_cache" / "codelimit.json").read_text())
            got = set(k.replace(os.sep, "/") for k in doc["codebase"]["files"])
            want = set(expected_files(str(root), opt + yml))
            if got != want:
                fails.append(("cli-excludes", f"scan --exclude {opt} with .codelimit.yml exclude {yml}: analysed but should not "
                              f"{sorted(got - want)}; not analysed but should {sorted(want - got)}", None))
        except BaseException as e:  # noqa
            fails.append(("cli-exception", f"scan --exclude {opt} yml {yml}: {type(e).__name__}: {str(e)[:120]}", None))
        finally:
            Configuration.exclude = []
    return fails, n


def run_check(paths, quiet_flag=False):
    """real check_command; returns (exit code, [(file, [(name, line, col, length)])])"""
    import typer
    from codelimit.commands.check import check_command
    from codelimit.common.CheckResult import CheckResult
    captured = []
    orig = CheckResult.report

    def rec(self):
        captured.append([(str(f), [(m.unit_name, m.start.line, m.start.column, m.end.line, m.end.column, m.value) for m in ms])
                         for f, ms in self.file_list])
        return orig(self)
    CheckResult.report = rec
    try:
        with quiet():
            try:
                check_command([Path(p) for p in paths], quiet_flag)
                code = None
            except typer.Exit as e:
                code = e.exit_code
    finally:
        CheckResult.report = orig
    return code, (captured[-1] if captured else [])


def run_c12(tmp, tier, rnd):
    from codelimit.common.Scanner import scan_path
    fails, n = [], 0
    for it in range(6 if tier == "quick" else 60):
        root = Path(tmp) / "w12" / "tree"
        ex = rnd.choice(EXCL_SETS) if it % 2 else rnd.choice([["/generated"], ["/docs"], ["src/sub"]])
        make_tree(root, rnd, None if it % 2 else ["", "src", "src/generated", "generated", "src/docs", "docs/api", "src/sub"])
        # a non-UTF-8 (Latin-1) source with a long function, and a malformed one
        (root / "latin.py").write_bytes(("# caf\xe9\n" + body("py", "latin", 40)).encode("latin-1"))
        (root / "broken.js").write_text("function f( {\n" + "x;\n" * 40)
        # a file with CR-only line ends (text mode translates them) and a symbolic link to a file with long functions
        (root / "cr.py").write_bytes(body("py", "cr_only", 45).replace("\n", "\r").encode())
        try:
            if not (root / "twin.py").exists():
                os.symlink(root / "latin.py", root / "twin.py")
        except OSError:
            pass
        # hidden directories that no built-in exclusion names, holding long functions
        for hd in (".tools/gen", "src/.cache"):
            (root / hd).mkdir(parents=True, exist_ok=True)
            (root / hd / "x.py").write_text(body("py", "hidden_dir_fn", 45))
        # long functions carrying the suppression marker: scan and check must agree on them too
        (root / "marked.py").write_text(body("py", "hidden", 40).replace("():", "():  # nocl", 1) + body("py", "shown", 41))
        (root / "marked.js").write_text(body("js", "hidden", 40).replace(") {", ") { // nocl", 1) + body("js", "shown", 41))
        # functions just over the threshold in files without a final newline (31 lines, 30 newline characters)
        (root / "edge31.py").write_text(body("py", "edge", 31).rstrip("\n"))
        (root / "edge31.js").write_text(body("js", "edge", 31).rstrip("\n"))
        (root / "edge61.c").write_text(body("c", "edge", 61).rstrip("\n"))
        (root / ".gitignore").write_text("\n".join(ex) + "\n")
        set_excludes([])
        with cwd(root):
            cb = scan_path(Path("."))
            scanned = {k.replace(os.sep, "/"): [(m.unit_name, m.start.line, m.start.column, m.end.line, m.end.column, m.value)
                                                 for m in v.measurements() if m.value > 30] for k, v in cb.files.items()}
            all_files = [os.path.relpath(os.path.join(d, f), ".").replace(os.sep, "/") for d, _, fs in os.walk(".") for f in fs]
            # 1. whole tree through the root directory, relative and absolute
            for way, arg in (("root-dir", "."), ("absolute-dir", str(root.resolve()))):
                n += 1
                try:
                    code, listed = run_check([arg])
                except Exception as e:  # noqa
                    fails.append(("exception", f"check {way}: {type(e).__name__}: {str(e)[:100]} (excludes {ex})", None))
                    continue
                got = {os.path.relpath(f, ".").replace(os.sep, "/"): sorted(ms, key=lambda m: -m[5]) for f, ms in listed}
                want = {k: sorted(v, key=lambda m: -m[5]) for k, v in scanned.items()}
                if {k: v for k, v in got.items() if v} != {k: v for k, v in want.items() if v} or set(got) != set(want):
                    fails.append(("tree-differs", f"check {way} vs scan (excludes {ex}): only check {sorted(set(got) - set(want))}; only scan "
                                  f"{sorted(set(want) - set(got))}; different {[k for k in set(got) & set(want) if got[k] != want[k]]}", None))
                want_code = 1 if any(m[5] > 60 for v in want.values() for m in v) else 0
                if code != want_code:
                    fails.append(("exit-status", f"check {way}: exit {code}, expected {want_code}", None))
            # 1b. through every sub-directory (relative)
            for sub in sorted({os.path.dirname(k) for k in all_files if os.path.dirname(k) and not any(p.startswith(".") for p in k.split("/"))}):
                n += 1
                try:
                    code, listed = run_check([sub])
                except Exception as e:  # noqa
                    fails.append(("exception", f"check dir {sub}: {type(e).__name__}: {str(e)[:100]}", None))
                    continue
                got = {os.path.relpath(f, ".").replace(os.sep, "/"): sorted(ms, key=lambda m: -m[5]) for f, ms in listed}
                want = {k: sorted(v, key=lambda m: -m[5]) for k, v in scanned.items() if k.startswith(sub + "/")}
                if set(got) != set(want) or any(got[k] != want[k] for k in got):
                    fails.append(("subdir-differs", f"check {sub}/ vs scan (excludes {ex}): only check {sorted(set(got) - set(want))}; only scan "
                                  f"{sorted(set(want) - set(got))}", None))
            # 2. single files by relative path and through their parent directory
            for rel in all_files:
                if rel.startswith(".codelimit") or rel == ".gitignore":
                    continue
                n += 1
                hidden = any(p.startswith(".") for p in rel.split("/"))
                try:
                    code, listed = run_check([rel])
                except Exception as e:  # noqa
                    fails.append(("exception", f"check file {rel}: {type(e).__name__}: {str(e)[:100]}", None))
                    continue
                got = [ms for f, ms in listed]
                got = sorted(got[0], key=lambda m: -m[5]) if got else None
                if rel in scanned:
                    if got is None or got != sorted(scanned[rel], key=lambda m: -m[5]):
                        fails.append(("file-differs", f"check {rel}: {got} vs scan {scanned[rel]}", None))
                elif not hidden and got:
                    # scan skipped it (excluded or unsupported): check must skip it too
                    fails.append(("excluded-file-checked", f"check {rel} listed {got} but scan skips the file (excludes {ex})", None))
    # (i) two codebases visited in one process, each holding a file with the same relative path but different content
    set_excludes([])
    (Path(tmp) / "w12").mkdir(exist_ok=True)
    for rel in ("src/app.py", "app.py"):
        roots = []
        for k, (name, ln) in enumerate((("first", 40), ("second", 70))):
            r = Path(tmp) / "w12" / f"cb{k}"
            if r.exists():
                shutil.rmtree(r)
            (r / rel).parent.mkdir(parents=True, exist_ok=True)
            (r / rel).write_text(body("py", name, ln))
            roots.append((r, name, ln))
        for r, name, ln in roots + roots[:1]:
            n += 1
            with cwd(r):
                try:
                    code, listed = run_check([rel])
                except Exception as e:  # noqa
                    fails.append(("exception", f"check {rel} in {r.name}: {type(e).__name__}: {str(e)[:100]}", None))
                    continue
                got = [(m[0], m[5]) for f, ms in listed for m in ms]
                if got != [(name, ln)] or code != (1 if ln > 60 else 0):
                    fails.append(("depends-on-earlier-check", f"check {rel} in codebase {r.name} (after the same relative path was checked in another "
                                  f"codebase): listed {got} exit {code}, expected {[(name, ln)]}", None))
    return fails, n


def run_c03_paths(tmp, tier, rnd):
    fails, n = [], 0
    root = Path(tmp) / "w3" / "proj"
    make_tree(root, rnd, ["", "src"])
    (root / "long.py").write_text(body("py", "big", 70))
    (root / "latin.py").write_bytes(("# caf\xe9\n" + body("py", "latin", 40)).encode("latin-1"))
    (root / "bin.py").write_bytes(bytes(range(256)))
    (root / "bom16le.py").write_bytes(b"\xff\xfe" + body("py", "big", 40).encode("latin-1") + b"\xe9")      # odd length after the mark
    (root / "bom16be.js").write_bytes(b"\xfe\xff\xd8\x00" + body("js", "big", 40).encode())                # unpaired surrogate
    (root / "bom8.py").write_bytes(b"\xef\xbb\xbf" + ("# caf\xe9\n" + body("py", "big", 40)).encode("latin-1"))
    (root / "nul.c").write_bytes(body("c", "big", 40).encode() + b"\x00\x00\xff")
    # several functions of exactly the same length (ties in any ordering of the findings)
    (root / "ties.py").write_text(body("py", "one", 40) + body("py", "two", 40) + body("py", "three", 40) + body("py", "four", 70) + body("py", "five", 70))
    (root / "ties.js").write_text(body("js", "one", 35) + body("js", "two", 35))
    other = Path(tmp) / "w3" / "elsewhere"
    other.mkdir(parents=True, exist_ok=True)
    # directories whose names extend the name of the working directory (string prefix, not a path prefix)
    for sib in ("proj-old", "proj2", "projects/sub"):
        d = Path(tmp) / "w3" / sib
        d.mkdir(parents=True, exist_ok=True)
        (d / "long.py").write_text(body("py", "big", 70))
    set_excludes([])
    ways = []
    for sib in ("proj-old", "proj2", "projects/sub"):
        d = (Path(tmp) / "w3" / sib).resolve()
        ways += [("sibling-file-absolute", root, str(d / "long.py")), ("sibling-dir-absolute", root, str(d)),
                 ("sibling-file-relative", root, os.path.relpath(d / "long.py", root)), ("sibling-dir-relative", root, os.path.relpath(d, root))]
    ways += [("relative", root, "ties.py"), ("relative", root, "ties.js"), ("absolute", root, str((root / "ties.py").resolve()))]
    for f in ("long.py", "latin.py", "bin.py", "bom16le.py", "bom16be.js", "bom8.py", "nul.c", "src"):
        ways += [("relative", root, f), ("absolute", root, str((root / f).resolve())), ("from-elsewhere-absolute", other, str((root / f).resolve())),
                 ("from-elsewhere-relative", other, os.path.relpath(root / f, other))]
    ways += [("root-dir", root, "."), ("dir-from-elsewhere", other, str(root.resolve())), ("dir-from-elsewhere-relative", other, "../proj")]
    # symbolic links: a link outside the working directory that points into it, and the working directory reached through a link
    try:
        link_out = Path(tmp) / "w3" / "link-to-src"
        os.symlink(root / "src", link_out)
        link_root = Path(tmp) / "w3" / "proj-link"
        os.symlink(root, link_root)
        ways += [("symlink-outside-pointing-inside-absolute", root, str(link_out)), ("symlink-outside-pointing-inside-relative", root, "../link-to-src"),
                 ("cwd-through-symlink-dot", link_root, "."), ("cwd-through-symlink-absolute-real", link_root, str(root.resolve())),
                 ("cwd-real-absolute-through-link", root, str(link_root)), ("file-through-link", root, str(link_root / "long.py"))]
    except OSError:
        pass
    for way, wd, arg in ways:
        n += 1
        with cwd(wd):
            try:
                code, _ = run_check([arg])
                if code not in (0, 1):
                    fails.append(("exit-status", f"check {arg} ({way}): exit {code}", None))
            except BaseException as e:  # noqa
                fails.append((f"{type(e).__name__}", f"check {arg} ({way}, cwd {wd.name}): {type(e).__name__}: {str(e)[:100]}", None))
    # scan of the same tree completes and writes a report
    n += 1
    try:
        scan(root)
    except BaseException as e:  # noqa
        fails.append(("scan-" + type(e).__name__, f"scan of a tree with non-UTF-8/binary sources: {type(e).__name__}: {str(e)[:100]}", None))
    return fails, n


# ------------------------------------------------------------------------------------------- C02 (the check command as a whole)
def run_check_printed(paths, quiet_flag):
    """real check_command with everything it prints captured; returns (exit code, printed text)"""
    import typer
    from codelimit.commands.check import check_command
    with quiet() as buf:
        try:
            check_command([Path(p) for p in paths], quiet_flag)
            code = None
        except typer.Exit as e:
            code = e.exit_code
    return code, buf.getvalue()


def run_c02(tmp, tier, rnd):
    """files holding one function of a boundary length each; check is given one or several paths in every order, with and
    without --quiet: exit status, listed functions, summary count and silence against the statement"""
    import re
    fails, n = [], 0
    root = Path(tmp) / "w2"
    lengths = {"f15.py": 15, "f16.js": 16, "f30.c": 30, "f31.py": 31, "f60.js": 60, "f61.c": 61, "f90.py": 90, "g31.ts": 31, "f60.ts": 60}
    # f60.ts has the bytes of f60.js: one function of 60 lines, in another language
    root.mkdir(parents=True)
    for nm, ln in lengths.items():
        (root / nm).write_text(body(nm.rsplit(".", 1)[-1], "fn_" + nm.split(".")[0], ln))
    for d, names in (("hard", ["f31.py", "f60.js"]), ("bad", ["f61.c", "f15.py"]), ("fine", ["f15.py", "f30.c"])):
        (root / d).mkdir()
        for nm in names:
            shutil.copy(root / nm, root / d / nm)
    dirs = {"hard": [31, 60], "bad": [61, 15], "fine": [15, 30]}
    set_excludes([])
    units = list(lengths) + list(dirs)
    combos = [[u] for u in units]
    combos += [list(c) for c in itertools.permutations(units, 2)][:: (2 if tier == "quick" else 1)]
    for _ in range(20 if tier == "quick" else 300):
        combos.append(rnd.sample(units, rnd.randint(3, 5)))
    # the same file reached twice: named twice, or through its directory and by name (relative and absolute)
    combos += [["f31.py", "f31.py"], ["f61.c", "f90.py", "f61.c"], ["bad", "bad/f61.c"], ["hard/f60.js", "hard"],
               [str(root / "bad"), str(root / "bad" / "f61.c")]]
    with cwd(root):
        for combo in combos:
            ls = []
            for u in combo:
                key = os.path.relpath(u, root) if os.path.isabs(u) else u
                ls += dirs[key] if key in dirs else [lengths[os.path.basename(key)]]
            for qf in (False, True):
                n += 1
                try:
                    code, text = run_check_printed(combo, qf)
                except Exception as e:  # noqa
                    fails.append(("exception", f"check {combo} quiet={qf}: {type(e).__name__}: {str(e)[:100]}", None))
                    continue
                want_code = 1 if any(x > 60 for x in ls) else 0
                if code != want_code:
                    fails.append(("exit-status", f"check {' '.join(combo)} (lengths {ls}): exit {code}, expected {want_code}", None))
                want_listed = sorted(x for x in ls if x > 30)
                if want_listed and not any(str(x) in text for x in want_listed):
                    fails.append(("listing", f"check {' '.join(combo)} quiet={qf}: functions of lengths {want_listed} not listed in {text[-200:]!r}", None))
                m = re.search(r"(\d+) functions? need", text)
                if want_listed:
                    # a file named twice may be listed once or once per mention - the statement fixes neither - but the summary
                    # must count what is listed
                    phys = {}
                    for u in combo:
                        key = os.path.relpath(u, root) if os.path.isabs(u) else u
                        for f_ in ([key + "/" + x for x in os.listdir(key)] if key in dirs else [key]):
                            phys[os.path.realpath(f_)] = lengths[os.path.basename(f_)]
                    distinct_n = sum(1 for v in phys.values() if v > 30)
                    allowed = {len(want_listed), distinct_n}
                    listed_n = text.count("fn_")
                    if listed_n not in allowed:
                        fails.append(("listing", f"check {' '.join(combo)} quiet={qf}: {listed_n} functions listed, expected "
                                      f"{sorted(allowed)} (lengths {ls})", None))
                    if not m or int(m.group(1)) != listed_n:
                        fails.append(("summary-count", f"check {' '.join(combo)} quiet={qf}: summary {m.group(0) if m else None!r}, "
                                      f"but {listed_n} functions are listed (lengths {ls})", None))
                else:
                    if m:
                        fails.append(("summary-count", f"check {' '.join(combo)}: claims {m.group(0)!r} but no function is longer than 30", None))
                    if "fn_" in text:
                        fails.append(("listing", f"check {' '.join(combo)}: lists a function although none is longer than 30: {text[:200]!r}", None))
                    if qf and text.strip():
                        fails.append(("quiet", f"check --quiet {' '.join(combo)} printed {text[:120]!r} although nothing needs refactoring", None))
                if not qf and not text.strip():
                    fails.append(("quiet", f"check {' '.join(combo)} printed nothing without --quiet", None))
                if qf and want_listed and not text.strip():
                    fails.append(("quiet", f"check --quiet {' '.join(combo)} printed nothing although {want_listed} need refactoring", None))
    # the same path checked again after the file was edited (same process): the second check sees the new content
    with cwd(root):
        ed = root / "edited.py"
        for first, second in ((31, 62), (62, 20), (20, 45)):
            n += 1
            ed.write_text(body("py", "fn_edit", first))
            try:
                run_check_printed(["edited.py"], False)
                ed.write_text(body("py", "fn_edit", second))
                code, text = run_check_printed(["edited.py"], False)
            except Exception as e:  # noqa
                fails.append(("exception", f"check edited.py twice: {type(e).__name__}: {str(e)[:100]}", None))
                continue
            listed_n = text.count("fn_")
            if code != (1 if second > 60 else 0) or listed_n != (1 if second > 30 else 0) or (second > 30 and str(second) not in text):
                fails.append(("stale-after-edit", f"check edited.py ({first} lines), edit to {second} lines, check again: exit {code}, {listed_n} listed, "
                              f"output {text[-160:]!r}", None))
        ed.unlink()
    # the overview the scan command prints while scanning: per-language counters of this scan only, also when another tree
    # was scanned before in the same process
    import re
    from codelimit.commands.scan import scan_command
    trees = {"A": ["f31.py", "f61.c"], "B": ["f60.js", "f90.py", "f15.py"], "C": ["f30.c", "f31.py", "g31.ts"], "D": ["f60.js", "f60.ts", "f15.py"]}
    langs = {"py": "Python", "js": "JavaScript", "c": "C", "ts": "TypeScript"}
    for order in (["A", "B"], ["B", "A", "C"], ["C", "C"], ["D"], ["A", "D"]):
        for t in order:
            tr = Path(tmp) / "w2" / ("tree" + t)
            if tr.exists():
                shutil.rmtree(tr)
            tr.mkdir()
            for nm in trees[t]:
                shutil.copy(root / nm, tr / nm)
            n += 1
            set_excludes([])
            try:
                with quiet() as buf:
                    scan_command(tr)
                text = buf.getvalue()
            except BaseException as e:  # noqa
                fails.append(("scan-exception", f"scan of tree {t} after {order}: {type(e).__name__}: {e}", None))
                continue
            want = {}
            for nm in trees[t]:
                r = want.setdefault(langs[nm.rsplit(".", 1)[-1]], [0, 0, 0, 0, 0])
                ln = lengths[nm]
                r[0] += 1; r[1] += 1; r[2] += ln; r[3] += 1 if 30 < ln <= 60 else 0; r[4] += 1 if ln > 60 else 0
            got = {}
            for line in text.splitlines():
                for lg in want:
                    if line.strip().startswith(lg + " "):
                        got[lg] = [int(x) for x in re.findall(r"\d+", line.strip()[len(lg):])][:5]
            if got != want:
                fails.append(("scan-overview", f"scanning {order[:order.index(t) + 1] if order.count(t) == 1 else order} in one process: overview of tree {t} shows "
                              f"{got}, expected {want} [files, functions, lines, hard-to-maintain, unmaintainable]", None))
    return fails, n


# ------------------------------------------------------------------------------------------- C06
def corpus_digest(order_seed):
    sys.path.insert(0, os.path.dirname(os.path.abspath(__file__)))
    import canon
    from h_pipeline import analyse
    texts = []
    for lang in canon.LANGS:
        for w in list(canon.programs(lang, "quick", 0))[::6]:
            texts.append((lang, w.text()))
        texts.append((lang, "((((  {{{ => ( function def f( :"))
    rnd = random.Random(order_seed)
    order = list(range(len(texts)))
    rnd.shuffle(order)
    res = {}
    for i in order:
        lang, t = texts[i]
        try:
            res[i] = [(m.unit_name, m.start.line, m.start.column, m.end.line, m.end.column, m.value) for m in analyse(lang, t)]
        except Exception as e:  # noqa
            res[i] = f"{type(e).__name__}"
    return [res[i] for i in range(len(texts))]


def run_c06(tmp, tier, rnd):
    fails, n = [], 0
    base = None
    for hs in (["0", "1", "7", "12345"] if tier == "quick" else [str(x) for x in range(12)]):
        for order_seed in ((1, 2) if tier == "quick" else (1, 2, 3, 4)):
            n += 1
            env = dict(os.environ, PYTHONHASHSEED=hs)
            p = subprocess.run([sys.executable, os.path.abspath(__file__), "--digest", str(order_seed)], capture_output=True, text=True, env=env,
                               timeout=600)
            try:
                d = json.loads(p.stdout.strip().splitlines()[-1])
            except Exception:
                fails.append(("digest-run-failed", p.stderr[-300:], None))
                continue
            if base is None:
                base = d
            elif d != base:
                k = next(i for i in range(len(d)) if d[i] != base[i])
                fails.append(("result-depends-on-seed-or-order", f"PYTHONHASHSEED={hs} order {order_seed}: text #{k}: {d[k]} vs {base[k]}", None))
    # repeated analysis in one process, and two scans of the same tree
    a, b = corpus_digest(3), corpus_digest(3)
    n += 1
    if a != b:
        fails.append(("repeat-differs", "the same texts analysed twice in one process give different results", None))
    root = Path(tmp) / "w6" / "tree"
    make_tree(root, rnd, ["", "src", "lib"])
    set_excludes([])
    d1 = norm(scan(root))
    shutil.rmtree(root / ".codelimit_cache")
    d2 = norm(scan(root))
    n += 1
    if d1 != d2:
        fails.append(("two-scans-differ", "two from-scratch scans of the same tree differ beyond uuid/timestamp/order", None))
    # identical bytes under two languages: each file's result must be what it is when analysed alone
    dup = Path(tmp) / "w6" / "dup"
    dup.mkdir(parents=True)
    text = body("py", "same", 35)
    for nm in ("a_same.py", "b_same.js", "c_same.c"):
        (dup / nm).write_text(text)
    (dup / "z_other.js").write_text(body("js", "other", 35))
    (dup / "y_same.py").write_text(body("js", "other", 35))
    alone = {}
    for nm in sorted(os.listdir(dup)):
        one = Path(tmp) / "w6" / "one"
        if one.exists():
            shutil.rmtree(one)
        one.mkdir()
        shutil.copy(dup / nm, one / nm)
        p = subprocess.run([sys.executable, os.path.abspath(__file__), "--scan-files", str(one)], capture_output=True, text=True, timeout=300)
        alone.update(json.loads(p.stdout.strip().splitlines()[-1]))
    together = norm(scan(dup))["codebase"]["files"]
    n += 1
    tg = {k: [[m["unit_name"], m["value"]] for m in v["measurements"]] for k, v in together.items()}
    if tg != alone:
        fails.append(("depends-on-other-files", f"files with identical bytes in different languages: together {tg} vs each alone {alone}", None))
    # a scan that finds the report of an earlier scan: files added since then with the bytes of an already reported file in
    # another language (a copied header, an empty module) get the language and measurements they have when analysed alone
    shutil.copy(dup / "a_same.py", dup / "d_same.ts")
    (dup / "__init__.py").write_text("")
    scan(dup)
    shutil.copy(dup / "b_same.js", dup / "e_same.cpp")
    (dup / "index.js").write_text("")
    (dup / "stub.c").write_text("")
    second = norm(scan(dup))["codebase"]["files"]
    n += 1
    for nm, v in sorted(second.items()):
        one = Path(tmp) / "w6" / "one"
        if one.exists():
            shutil.rmtree(one)
        one.mkdir()
        shutil.copy(dup / nm, one / nm)
        p = subprocess.run([sys.executable, os.path.abspath(__file__), "--scan-files", str(one)], capture_output=True, text=True, timeout=300)
        want_ms = json.loads(p.stdout.strip().splitlines()[-1]).get(nm)
        got_ms = [[m["unit_name"], m["value"]] for m in v["measurements"]]
        want_lang = SUPPORTED.get(ext_of(nm))
        if got_ms != want_ms or v["language"] != want_lang:
            fails.append(("depends-on-earlier-report", f"{nm} in a scan that reuses an earlier report: language {v['language']} measurements {got_ms}; "
                          f"alone: language {want_lang} measurements {want_ms}", None))
            break
    # names without an extension and mixed encodings, visited in both directory orders: each file's result is what it is alone
    mix = Path(tmp) / "w6" / "mix"
    mix.mkdir(parents=True)
    (mix / "Makefile").write_text("all:\n\techo hi\n")
    (mix / "LICENSE").write_text("text\n")
    (mix / "SConstruct").write_text(body("py", "build", 35))
    (mix / "SConscript").write_text(body("py", "sub", 33))
    (mix / "m.c").write_text(body("c", "same", 35))
    (mix / "n.C").write_text(body("c", "same", 35))
    (mix / "p.h").write_text(body("c", "hdr", 33))
    (mix / "q.H").write_text(body("c", "hdr", 33))
    (mix / "l_latin.py").write_bytes((body("py", "latin", 35) + "s = 'caf\u00e9'\n").encode("latin-1"))
    (mix / "u_utf8.py").write_bytes(body("py", "gr\u00f6\u00dfe", 35).encode("utf-8"))
    (mix / "v_utf8.js").write_bytes(body("js", "\u00fcber", 35).encode("utf-8"))
    alone = {}
    for nm in sorted(os.listdir(mix)):
        one = Path(tmp) / "w6" / "one"
        if one.exists():
            shutil.rmtree(one)
        one.mkdir()
        shutil.copy(mix / nm, one / nm)
        p = subprocess.run([sys.executable, os.path.abspath(__file__), "--scan-files-lang", str(one)], capture_output=True, text=True, timeout=300)
        alone.update(json.loads(p.stdout.strip().splitlines()[-1]))
    real_walk = os.walk
    from codelimit.common.Scanner import scan_path as _scan_path
    for order in ("ascending", "descending"):
        def ordered_walk(top, *a, _o=order, **kw):
            for r, ds, fs in real_walk(top, *a, **kw):
                fs2 = sorted(fs, reverse=(_o == "descending"))
                yield r, ds, fs2
        os.walk = ordered_walk
        try:
            set_excludes([])
            cb = _scan_path(mix)
            got = {k: [v.language, [[m.unit_name, m.value] for m in v.measurements()]] for k, v in cb.files.items()}
        except Exception as e:  # noqa
            got = f"{type(e).__name__}: {e}"
        finally:
            os.walk = real_walk
        n += 1
        if got != alone:
            fails.append(("depends-on-traversal-order-or-other-files", f"files visited in {order} name order: {got} vs each file alone {alone}", None))
    # exclusion lists with negation: the result must not depend on the hash seed
    neg = Path(tmp) / "w6" / "neg"
    make_tree(neg, rnd, ["", "generated", "src"])
    (neg / "generated" / "handwritten.py").write_text(body("py", "hand", 35))
    (neg / ".gitignore").write_text("generated/*\n!generated/handwritten.py\n*.ts\n!src/c.ts\n")
    seen_sets = {}
    for hs in ("0", "1", "2", "3", "4", "5", "6", "7"):
        env = dict(os.environ, PYTHONHASHSEED=hs)
        p = subprocess.run([sys.executable, os.path.abspath(__file__), "--scan-files", str(neg)], capture_output=True, text=True, env=env, timeout=300)
        n += 1
        try:
            seen_sets[hs] = sorted(json.loads(p.stdout.strip().splitlines()[-1]))
        except Exception:
            fails.append(("scan-run-failed", p.stderr[-300:], None))
    if len({tuple(v) for v in seen_sets.values()}) > 1:
        fails.append(("file-set-depends-on-hash-seed", f"with negated .gitignore patterns: {seen_sets}", None))
    # scanning another tree first (in the same process) must not influence the result
    other = Path(tmp) / "w6" / "other"
    make_tree(other, rnd, ["", "x"])
    (other / "SConstruct").write_text("print(1)\n")
    (other / "noext").write_text("#!/bin/sh\n")
    scan(other)
    shutil.rmtree(root / ".codelimit_cache")
    d3 = norm(scan(root))
    n += 1
    if d3 != d1:
        fails.append(("depends-on-earlier-scan", "scanning another tree first changes the report of this tree", None))
    return fails, n


def main():
    if sys.argv[1] == "--digest":
        print(json.dumps(corpus_digest(int(sys.argv[2]))))
        return
    if sys.argv[1] == "--interrupted-scan":
        set_excludes([])
        scan(sys.argv[2])
        return
    if sys.argv[1] == "--scan-files-lang":
        from codelimit.common.Scanner import scan_path
        set_excludes([])
        cb = scan_path(Path(sys.argv[2]))
        print(json.dumps({k.replace(os.sep, "/"): [v.language, [(m.unit_name, m.value) for m in v.measurements()]] for k, v in cb.files.items()}))
        return
    if sys.argv[1] == "--scan-files":
        from codelimit.common.Scanner import scan_path
        set_excludes([])
        cb = scan_path(Path(sys.argv[2]))
        print(json.dumps({k.replace(os.sep, "/"): [(m.unit_name, m.value) for m in v.measurements()] for k, v in cb.files.items()}))
        return
    if sys.argv[1] == "--replay":
        rp = json.load(open(sys.argv[2]))
        prop = rp["obligation"].split(":")[0]
        tmp = tempfile.mkdtemp(prefix="verif_fs_")
        try:
            if prop == "C09" and rp.get("case"):
                fs = run_c09([tuple(o) for o in rp["case"]], tmp)
            else:
                fs = [("rerun-the-check", "this finding is replayed by re-running the check (temporary trees are generated from the seed)")]
            print(json.dumps({"reproduced": bool(fs), "failures": [list(f[:2]) for f in fs[:3]]}))
        finally:
            shutil.rmtree(tmp, ignore_errors=True)
        return
    prop, tier, seed = sys.argv[1], sys.argv[2], int(sys.argv[3])
    rnd = random.Random(seed)
    tmp = tempfile.mkdtemp(prefix="verif_fs_")
    out = {"evaluations": 0, "distinct_nontrivial": 0, "failures": [], "samples": [], "faults": []}
    try:
        if prop == "C09":
            seqs = c09_sequences(tier, rnd)
            for seq in seqs:
                out["evaluations"] += 1
                for kind, what in run_c09(seq, tmp)[:1]:
                    out["failures"].append({"name": f"C09:{kind}", "what": what, "case": [list(o) for o in seq], "tags": [o[0] for o in seq]})
            for kind, what in check_version_refusal(tmp):
                out["failures"].append({"name": f"C09:{kind}", "what": what, "case": None, "tags": []})
            out["evaluations"] += 4
            out["distinct_nontrivial"] = len(seqs)
            out["samples"] = [{"history": [list(o) for o in seqs[40]]}]
        elif prop == "C10":
            fs, n = run_c10(tmp, tier, rnd)
            out["evaluations"] = out["distinct_nontrivial"] = n
            seen = {}
            for kind, what, name in fs:
                seen[kind] = seen.get(kind, 0) + 1
                if seen[kind] <= 2:
                    out["failures"].append({"name": f"C10:{kind}", "what": what + (f" (+ more of this kind)" if seen[kind] == 2 else ""), "case": name, "tags": []})
            out["samples"] = [{"faults": "missing, empty, truncated at byte offsets, non-JSON, missing key / wrong type at every level, directory without file/markers"}]
        elif prop in ("C11", "C12", "C06", "C03", "C04", "C02"):
            fn = {"C11": run_c11, "C12": run_c12, "C06": run_c06, "C03": run_c03_paths, "C04": run_c04, "C02": run_c02}[prop]
            fs, n = fn(tmp, tier, rnd)
            out["evaluations"] = out["distinct_nontrivial"] = n
            seen = {}
            for kind, what, _ in fs:
                seen[kind] = seen.get(kind, 0) + 1
                if seen[kind] <= 3:
                    out["failures"].append({"name": f"{prop}:{kind}", "what": what, "case": None, "tags": []})
            out["samples"] = [{"note": f"{n} cases on generated temporary trees"}]
    except Exception:
        out["faults"].append(traceback.format_exc()[-1500:])
    finally:
        shutil.rmtree(tmp, ignore_errors=True)
    print(json.dumps(out))


if __name__ == "__main__":
    main()
