#!/venv/bin/python
"""Bounded stand-ins for the pattern engine: C13 (regular-expression semantics), C14 (search), C15 (unambiguity of the
shipped header patterns), C06 (order/seed independence of the automata).

usage: h_gsm.py <PROP> <tier> <seed>   |   h_gsm.py --replay <file>
Reference semantics: Brzozowski derivatives over the pattern syntax tree (independent of the code under test)."""
import itertools
import json
import os
import random
import signal
import sys
import traceback
from multiprocessing import Pool

sys.setrecursionlimit(3000)

ALPHA = ["a", "b", "c"]


# ------------------------------------------------------------------ pattern syntax trees
# ('atom', x) | ('seq', [p...]) | ('alt', p, q) | ('opt', p) | ('star', p) | ('plus', p)
def trees(size, atoms=ALPHA):
    """all trees with exactly `size` operator/atom nodes"""
    if size == 1:
        for a in atoms:
            yield ("atom", a)
        return
    for p in trees(size - 1, atoms):
        yield ("opt", p)
        yield ("star", p)
        yield ("plus", p)
    for k in range(1, size - 1):
        for p in trees(k, atoms):
            for q in trees(size - 1 - k, atoms):
                yield ("alt", p, q)
                yield ("seq", [p, q])


def build(t):
    from codelimit.common.gsm.operator.OneOrMore import OneOrMore
    from codelimit.common.gsm.operator.Optional import Optional
    from codelimit.common.gsm.operator.Union import Union
    from codelimit.common.gsm.operator.ZeroOrMore import ZeroOrMore
    k = t[0]
    if k == "atom":
        return t[1]
    if k == "seq":
        out = []
        for p in t[1]:
            b = build(p)
            if isinstance(b, list):
                out.extend(b)
            else:
                out.append(b)
        return out
    if k == "alt":
        return Union(build(t[1]), build(t[2]))
    if k == "opt":
        return Optional(build(t[1]))
    if k == "star":
        return ZeroOrMore(build(t[1]))
    if k == "plus":
        return OneOrMore(build(t[1]))


def show(t):
    k = t[0]
    if k == "atom":
        return t[1] if isinstance(t[1], str) and t[1] in ALPHA else repr(t[1])
    if k == "seq":
        return "(" + " ".join(show(p) for p in t[1]) + ")"
    if k == "alt":
        return f"({show(t[1])}|{show(t[2])})"
    return f"{show(t[1])}{'?' if k == 'opt' else '*' if k == 'star' else '+'}"


def nullable(t):
    k = t[0]
    if k in ("atom", "empty"):
        return False
    if k == "seq":
        return all(nullable(p) for p in t[1])
    if k == "alt":
        return nullable(t[1]) or nullable(t[2])
    if k in ("opt", "star"):
        return True
    return nullable(t[1])


EMPTY, EPS = ("empty",), ("seq", [])


def deriv(t, x):
    k = t[0]
    if k == "empty":
        return EMPTY
    if k == "atom":
        return EPS if t[1] == x else EMPTY
    if k == "seq":
        if not t[1]:
            return EMPTY
        head, rest = t[1][0], ("seq", t[1][1:])
        d = ("seq", [deriv(head, x), rest])
        if nullable(head):
            return ("alt", d, deriv(rest, x))
        return d
    if k == "alt":
        return ("alt", deriv(t[1], x), deriv(t[2], x))
    if k == "opt":
        return deriv(t[1], x)
    if k == "star":
        return ("seq", [deriv(t[1], x), t])
    if k == "plus":
        return ("seq", [deriv(t[1], x), ("star", t[1])])


def nullable_e(t):
    return False if t[0] == "empty" else nullable(t)


def is_empty_lang(t, _memo={}):
    k = t[0]
    if k == "empty":
        return True
    if k == "atom":
        return False
    if k == "seq":
        return any(is_empty_lang(p) for p in t[1])
    if k == "alt":
        return is_empty_lang(t[1]) and is_empty_lang(t[2])
    if k in ("opt", "star"):
        return False
    return is_empty_lang(t[1])


def ref_match(t, seq):
    for x in seq:
        t = deriv(t, x)
    return nullable_e(t)


def ref_dead(t, seq):
    for x in seq:
        t = deriv(t, x)
    return is_empty_lang(t)


class Timeout(Exception):
    pass


def _alarm(s, f):
    raise Timeout()


def guarded(fn, *a):
    signal.signal(signal.SIGALRM, _alarm)
    signal.alarm(10)
    try:
        return ("ok", fn(*a))
    except Timeout:
        return ("hang", None)
    except RecursionError:
        return ("recursion", None)
    except Exception as e:  # noqa
        return ("exception", f"{type(e).__name__}: {e}")
    finally:
        signal.alarm(0)


# ------------------------------------------------------------------ C13
ID_BASES = (1, 1, 7, 93, 997, 1)


def reset_state_ids(t, s):
    """Automaton states are numbered from a process-wide counter; the first patterns compiled in a process get the smallest
    numbers. Every case starts from a small base (mostly 1, also just below 10 / 100 / 1000) so that the numbering a fresh
    process would produce is among the explored ones."""
    try:
        from codelimit.common.gsm.automata.State import State
        State._id = ID_BASES[(len(s) + len(str(t))) % len(ID_BASES)]
    except Exception:  # noqa
        pass


def check_c13(t, seqs):
    from codelimit.common.gsm.matcher import match, starts_with, nfa_match
    from codelimit.common.gsm.Expression import expression_to_nfa, nfa_to_dfa
    fails = []
    expr = build(t)
    st, _ = guarded(lambda: nfa_to_dfa(expression_to_nfa(expr)))
    if st != "ok":
        return [("build-" + st, f"building the matcher for {show(t)}: {st}", [])]
    for s in seqs:
        reset_state_ids(t, s)
        exp = ref_match(t, s)
        st, r = guarded(lambda: match(expr, list(s)) is not None)
        if st != "ok" or r != exp:
            fails.append(("match", f"{show(t)} on {list(s)}: match says {r if st == 'ok' else st}, language says {exp}", list(s)))
        st, r = guarded(lambda: bool(nfa_match(expr, list(s))))
        if st != "ok" or r != exp:
            fails.append(("nfa_match", f"{show(t)} on {list(s)}: nfa_match says {r if st == 'ok' else st}, language says {exp}", list(s)))
        # shortest non-empty matching prefix
        want = None
        for k in range(1, len(s) + 1):
            if ref_match(t, s[:k]):
                want = k
                break
            if ref_dead(t, s[:k]):
                break
        st, r = guarded(lambda: starts_with(expr, list(s)))
        got = (r.end if r is not None else None) if st == "ok" else st
        if got != want:
            fails.append(("starts_with", f"{show(t)} on {list(s)}: prefix end {got}, shortest non-empty matching prefix {want}", list(s)))
        if len(fails) > 3:
            break
    return fails


# ------------------------------------------------------------------ C14
def greedy_from(t, seq, start):
    """longest k such that seq[start:start+k] in L(t) along the run that stays alive (greedy run), or None."""
    cur = t
    k = 0
    for x in seq[start:]:
        nxt = deriv(cur, x)
        if is_empty_lang(nxt):
            break
        cur = nxt
        k += 1
    # greedy matching: consume while the run stays alive; it succeeds iff the state reached then is accepting
    return (k if k > 0 and nullable_e(cur) else None), k


def check_c14(t, seqs):
    from codelimit.common.gsm.matcher import find_all
    fails = []
    expr = build(t)
    for s in seqs:
        reset_state_ids(t, s)
        st, ms = guarded(lambda: find_all(expr, list(s)))
        if st != "ok":
            fails.append(("find_all-" + st, f"{show(t)} on {list(s)}: {st} {ms}", list(s)))
            continue
        spans = [(m.start, m.end) for m in ms]
        prev_end = 0
        bad = None
        for (a, b), m in zip(spans, ms):
            if not (0 <= a < b <= len(s)):
                bad = ("bounds", f"match {(a, b)} out of bounds / empty")
            elif list(m.tokens) != list(s[a:b]):
                bad = ("items", f"match {(a, b)} records {list(m.tokens)} instead of {list(s[a:b])}")
            elif not ref_match(t, s[a:b]):
                bad = ("not-a-word", f"match {(a, b)} = {list(s[a:b])} is not in the language")
            elif a < prev_end:
                bad = ("order-or-overlap", f"matches {spans} overlap or are out of order")
            else:
                # longest from its start: no longer word along the greedy run
                longer = [k for k in range(b - a + 1, len(s) - a + 1) if ref_match(t, s[a:a + k])
                          and all(not ref_dead(t, s[a:a + j]) for j in range(1, k + 1))]
                if longer:
                    bad = ("not-longest", f"match {(a, b)} but {list(s[a:a + longer[-1]])} also matches from {a}")
            if bad:
                break
            prev_end = b
        if bad:
            fails.append((bad[0], f"{show(t)} on {list(s)}: {bad[1]}", list(s)))
            continue
        # coverage: every start from which greedy matching succeeds lies inside some reported match
        for start in range(len(s)):
            best, _ = greedy_from(t, s, start)
            if best is not None and not any(a <= start < b for a, b in spans):
                # the recorded mechanism (D19): a younger attempt completes strictly before the older, still live one would
                inside = any(start < a and b < start + best for a, b in spans)
                fails.append(("coverage" + ("[younger-match-inside-older-attempt]" if inside else ""),
                              f"{show(t)} on {list(s)}: greedy match from {start} (length {best}) is not covered by {spans}", list(s)))
                break
        if len(fails) > 3:
            break
    return fails


# ------------------------------------------------------------------ C15: shipped header patterns
def shipped_patterns():
    """(language, label, expression) captured from the real extract_headers by intercepting get_headers."""
    import importlib
    out = []
    from codelimit.languages import Languages
    for name, lang in Languages.by_name.items():
        mod = importlib.import_module(type(lang).__module__)
        captured = []

        def fake(tokens, expression, followed_by=None, _c=captured):
            _c.append((expression, followed_by))
            return []
        orig = mod.get_headers
        mod.get_headers = fake
        try:
            lang.extract_headers([])
        finally:
            mod.get_headers = orig
        for i, (e, f) in enumerate(captured):
            out.append((name, f"header{i}", e))
            if f is not None:
                out.append((name, f"followup{i}", f))
    return out


def token_classes():
    from pygments.token import Token as T
    from codelimit.common.Token import Token
    from codelimit.common.Location import Location
    # every token type Pygments defines (Keyword.Type, Name.Other, Operator.Word, the comment and string kinds, ...)
    from pygments.token import STANDARD_TYPES
    kinds = {(".".join(str(t).split(".")[1:]) or "Token"): t for t in STANDARD_TYPES}
    values = ["(", ")", "{", "}", "[", "]", ";", ":", "=", "=>", "function", "const", "let", "var", "async", "def", "throws", "record", "new", "x",
              "noexcept", "override", "final", "class", ","]
    out = []
    for kn, kt in kinds.items():
        for v in values:
            out.append((f"{kn}:{v}", Token(Location(1, 1), kt, v)))
    return out


def check_c15(depth_bound=3):
    """Explore every reachable (DFA state, predicate memory) configuration of each shipped automaton with nesting depth up
    to depth_bound, over all token classes, with the real Pattern.consume."""
    import copy
    from codelimit.common.gsm.Expression import expression_to_nfa, nfa_to_dfa
    from codelimit.common.gsm.Pattern import Pattern
    fails = []
    stats = {"configs": 0, "steps": 0, "automata": 0}
    toks = token_classes()
    for lang, label, expr in shipped_patterns():
        stats["automata"] += 1
        dfa = nfa_to_dfa(expression_to_nfa(expr))

        def memkey(p):
            ds = []
            for pid in sorted(p.predicate_map):
                pr = p.predicate_map[pid]
                ds.append(tuple(getattr(x, "depth", None) for x in walk_pred(pr)))
            return (id(p.state), tuple(ds))
        start = Pattern(0, dfa)
        seen = {memkey(start)}
        frontier = [(start, [])]
        while frontier:
            p, path = frontier.pop()
            stats["configs"] += 1
            for tname, tok in toks:
                q = Pattern(0, dfa)
                q.state = p.state
                q.tokens = []
                q.predicate_map = copy.deepcopy(p.predicate_map)
                stats["steps"] += 1
                try:
                    nxt = q.consume(tok)
                except ValueError as e:
                    fails.append((f"{lang}:{label}:ambiguous", f"{lang} {label}: after {path} token {tname} -> {e}", {"path": path + [tname]}))
                    continue
                if nxt is None:
                    continue
                depths = [getattr(x, "depth", 0) or 0 for pr in q.predicate_map.values() for x in walk_pred(pr)]
                if depths and max(depths) > depth_bound:
                    continue
                k = memkey(q)
                if k not in seen:
                    seen.add(k)
                    frontier.append((q, path + [tname]))
            if len(fails) > 5:
                break
    return fails, stats


def walk_pred(p):
    out = [p]
    for a in ("left", "right", "predicate"):
        c = getattr(p, a, None)
        if c is not None and hasattr(c, "accept"):
            out.extend(walk_pred(c))
    return out


# ------------------------------------------------------------------ driver
def chunk_work(job):
    prop, chunk, maxlen = job
    out = {"evaluations": 0, "failures": [], "distinct": 0}
    seqs = [s for n in range(0, maxlen + 1) for s in itertools.product(ALPHA, repeat=n)]
    try:
        for t in chunk:
            out["distinct"] += 1
            if prop == "C13":
                fs = check_c13(t, seqs)
                out["evaluations"] += len(seqs)
                if not fs and out["distinct"] % 7 == 0:
                    # the same tree over items that print alike but are different: 1, "1" and "x"
                    m = {"a": 1, "b": "1", "c": "x"}

                    def remap(x):
                        if x[0] == "atom":
                            return ("atom", m[x[1]])
                        if x[0] == "seq":
                            return ("seq", [remap(y) for y in x[1]])
                        return (x[0],) + tuple(remap(y) for y in x[1:])
                    short = [tuple(m[c] for c in q) for q in seqs if len(q) <= 4]
                    fs = check_c13(remap(t), short)
                    out["evaluations"] += len(short)
            else:
                if nullable(t):
                    continue
                fs = check_c14(t, seqs)
                out["evaluations"] += len(seqs)
            for kind, what, s in fs[:2]:
                out["failures"].append({"name": f"{prop}:{kind}", "what": what, "case": {"tree": t, "sequence": s},
                                        "tags": sorted(tags_of(t))})
    except Exception:
        out["fault"] = traceback.format_exc()[-800:]
    return out


def long_work(job):
    prop, items = job
    out = {"evaluations": 0, "failures": [], "distinct": 0}
    try:
        for t, seqs in items:
            if prop != "C13" and nullable(t):
                continue
            out["distinct"] += 1
            out["evaluations"] += len(seqs)
            fs = check_c13(t, seqs) if prop == "C13" else check_c14(t, seqs)
            for kind, what, s in fs[:2]:
                out["failures"].append({"name": f"{prop}:{kind}", "what": what, "case": {"tree": t, "sequence": s}, "tags": sorted(tags_of(t))})
    except Exception:
        out["fault"] = traceback.format_exc()[-800:]
    return out


def tags_of(t):
    tags = set()

    def walk(x, under_rep):
        k = x[0]
        if k in ("star", "plus"):
            if nullable(x[1]):
                tags.add("repetition-of-nullable")
            walk(x[1], True)
        elif k == "opt":
            walk(x[1], under_rep)
        elif k == "alt":
            walk(x[1], under_rep)
            walk(x[2], under_rep)
        elif k == "seq":
            for p in x[1]:
                walk(p, under_rep)
    walk(t, False)
    return tags


def header_tokens():
    from pygments.token import Token as T
    from codelimit.common.Token import Token
    from codelimit.common.Location import Location
    mk = lambda ty, v: Token(Location(1, 1), ty, v)
    return {"id": mk(T.Name, "x"), "kw": mk(T.Keyword, "function"), "(": mk(T.Punctuation, "("), ")": mk(T.Punctuation, ")"),
            "{": mk(T.Punctuation, "{"), "o": mk(T.Operator, "=")}


def header_patterns():
    from codelimit.common.gsm.operator.OneOrMore import OneOrMore
    from codelimit.common.gsm.operator.Optional import Optional
    from codelimit.common.token_matching.predicate.Balanced import Balanced
    from codelimit.common.token_matching.predicate.Keyword import Keyword
    from codelimit.common.token_matching.predicate.Name import Name
    return {"name-groups": (lambda: [Name(), OneOrMore(Balanced("(", ")"))], False, False),
            "optkw-name-groups": (lambda: [Optional(Keyword("function")), Name(), OneOrMore(Balanced("(", ")"))], True, False),
            "kw-name-groups": (lambda: [Keyword("function"), Name(), OneOrMore(Balanced("(", ")"))], True, True)}


def ref_header_end(seq, s, opt_kw, req_kw):
    """end of the greedy run of [kw?] id group+ from s (None if it does not succeed); groups balance parentheses"""
    i = s
    n = len(seq)
    if i < n and seq[i] == "kw" and (opt_kw or req_kw):
        i += 1
    elif req_kw:
        return None
    if i >= n or seq[i] != "id":
        return None
    i += 1
    groups = 0
    while i < n and seq[i] == "(":
        depth = 0
        while i < n:
            if seq[i] == "(":
                depth += 1
            elif seq[i] == ")":
                depth -= 1
            i += 1
            if depth == 0:
                break
        groups += 1
        if depth != 0:
            return i        # input ended inside a group: the run ends with the input
    return i if groups >= 1 else None


def check_header_shapes(maxlen):
    from codelimit.common.gsm.matcher import find_all
    toks = header_tokens()
    names = list(toks)
    fails, n = [], 0
    for pname, (mk, opt_kw, req_kw) in header_patterns().items():
        for ln in range(0, maxlen + 1):
            for seq in itertools.product(names, repeat=ln):
                n += 1
                st, ms = guarded(lambda: find_all(mk(), [toks[x] for x in seq]))
                if st != "ok":
                    fails.append((f"headers:{pname}:find_all-{st}", f"{pname} on {list(seq)}: {ms}", list(seq)))
                    continue
                spans = [(m.start, m.end) for m in ms]
                prev = 0
                bad = None
                for (a, b), m in zip(spans, ms):
                    e = ref_header_end(seq, a, opt_kw, req_kw)
                    if not (0 <= a < b <= len(seq)):
                        bad = ("bounds", f"match {(a, b)}")
                    elif [t.value for t in m.tokens] != [toks[x].value for x in seq[a:b]]:
                        bad = ("items", f"match {(a, b)} records {[t.value for t in m.tokens]}")
                    elif e is None:
                        bad = ("not-a-word", f"match {(a, b)} is not a header")
                    elif e != b:
                        bad = ("not-longest-or-unbalanced", f"match {(a, b)} but the balanced header from {a} ends at {e}")
                    elif a < prev:
                        bad = ("order-or-overlap", f"matches {spans}")
                    if bad:
                        break
                    prev = b
                if bad:
                    fails.append((f"headers:{bad[0]}", f"{pname} on {list(seq)}: {bad[1]}", list(seq)))
                    continue
                for s0 in range(len(seq)):
                    e = ref_header_end(seq, s0, opt_kw, req_kw)
                    if e is not None and not any(a <= s0 < b for a, b in spans):
                        inside = any(s0 < a and b < e for a, b in spans)
                        fails.append(("headers:coverage" + ("[younger-match-inside-older-attempt]" if inside else ""),
                                      f"{pname} on {list(seq)}: header from {s0} to {e} not covered by {spans}", list(seq)))
                        break
                if len(fails) > 30:
                    return fails, n
    return fails, n


def check_isolation(maxlen):
    """Candidates that are alive at the same time must not influence each other: every match find_all reports from position a
    ends where a single pattern started at a - fed alone, with its own fresh predicates - has its last accepting state.
    Patterns with stateful predicates, also nested inside composite ones; sequences over {id, (, ), [, ], o} up to maxlen."""
    from pygments.token import Token as T
    from codelimit.common.Token import Token
    from codelimit.common.Location import Location
    from codelimit.common.gsm.matcher import find_all
    from codelimit.common.gsm.Expression import expression_to_nfa, nfa_to_dfa
    from codelimit.common.gsm.Pattern import Pattern
    from codelimit.common.gsm.operator.OneOrMore import OneOrMore
    from codelimit.common.token_matching.predicate.Balanced import Balanced
    from codelimit.common.token_matching.predicate.Name import Name
    from codelimit.common.token_matching.predicate.Or import Or
    from codelimit.common.token_matching.predicate.And import And
    from codelimit.common.token_matching.predicate.Not import Not
    mk = lambda ty, v: Token(Location(1, 1), ty, v)
    toks = {"id": mk(T.Name, "x"), "(": mk(T.Punctuation, "("), ")": mk(T.Punctuation, ")"), "[": mk(T.Punctuation, "["),
            "]": mk(T.Punctuation, "]"), "o": mk(T.Operator, "=")}
    shapes = {"name (..)|[..] groups": lambda: [Name(), OneOrMore(Or(Balanced("(", ")"), Balanced("[", "]")))],
              "name (..) groups": lambda: [Name(), OneOrMore(Balanced("(", ")"))],
              "(..) groups (the pattern starts with a stateful predicate)": lambda: [OneOrMore(Balanced("(", ")"))],
              "(..)|[..] groups": lambda: [OneOrMore(Or(Balanced("(", ")"), Balanced("[", "]")))],
              "name (..)-and-not-name groups": lambda: [Name(), OneOrMore(And(Balanced("(", ")"), Not(Name())))]}
    fails, n = [], 0
    for pname, mkexpr in shapes.items():
        for ln in range(1, maxlen + 1):
            for seq in itertools.product(list(toks), repeat=ln):
                if pname.startswith("name") and "id" not in seq:
                    continue
                n += 1
                items = [toks[x] for x in seq]
                st, ms = guarded(lambda: find_all(mkexpr(), items))
                if st != "ok":
                    continue        # ambiguity / errors are C03's and C15's statements
                for m in ms:
                    def alone():
                        p = Pattern(m.start, nfa_to_dfa(expression_to_nfa(mkexpr())))
                        last = None
                        for k in range(m.start, len(items)):
                            if not p.consume(items[k]):
                                break
                            if p.is_accepting():
                                last = k + 1
                        return last
                    st2, e = guarded(alone)
                    if st2 == "ok" and e != m.end:
                        fails.append(("isolation", f"{pname} on {list(seq)}: match {(m.start, m.end)}, but a pattern started at {m.start} and fed alone "
                                      f"last accepts at {e}", list(seq)))
                        break
                if len(fails) > 6:
                    return fails, n
    return fails, n


def main():
    if sys.argv[1] == "--replay":
        rp = json.load(open(sys.argv[2]))
        prop = rp["obligation"].split(":")[0]
        if prop == "C15":
            fs, _ = check_c15()
            print(json.dumps({"reproduced": any(f[0] == rp["obligation"].split(":", 1)[1] or True for f in fs) and bool(fs), "failures": [f[:2] for f in fs[:3]]}))
            return
        def tup(x):
            if isinstance(x, list) and x and isinstance(x[0], str) and x[0] in ("atom", "seq", "alt", "opt", "star", "plus"):
                if x[0] == "seq":
                    return ("seq", [tup(p) for p in x[1]])
                return tuple([x[0]] + [tup(p) if isinstance(p, list) else p for p in x[1:]])
            return x
        if "header_sequence" in rp["case"]:
            sq = list(rp["case"]["header_sequence"])
            found = [f for f in check_header_shapes(len(sq))[0] + check_isolation(len(sq))[0] if list(f[2]) == sq]
            print(json.dumps({"reproduced": bool(found), "failures": [f[:2] for f in found[:3]]}))
            return
        t = tup(rp["case"]["tree"])
        s = tuple(rp["case"]["sequence"])
        fs = check_c13(t, [s]) if prop == "C13" else check_c14(t, [s])
        print(json.dumps({"reproduced": bool(fs), "failures": [f[:2] for f in fs[:3]]}))
        return
    prop, tier, seed = sys.argv[1], sys.argv[2], int(sys.argv[3])
    rnd = random.Random(seed)
    if prop == "C15":
        fs, stats = check_c15(3 if tier == "quick" else 5)
        print(json.dumps({"evaluations": stats["steps"], "distinct_nontrivial": stats["configs"], "failures":
                          [{"name": "C15:" + k, "what": w, "case": c, "tags": []} for k, w, c in fs],
                          "samples": [stats], "faults": []}))
        return
    maxsize = 5 if tier == "quick" else 6
    maxlen = 5 if tier == "quick" else 6
    all_trees = [t for n in range(1, maxsize + 1) for t in trees(n)]
    if tier == "thorough" and len(all_trees) > 12000:
        small = [t for n in range(1, 6) for t in trees(n)]
        big = list(trees(6))
        rnd.shuffle(big)
        all_trees = small + big[:6000]
    if tier == "quick":
        six = list(trees(6))
        rnd.shuffle(six)
        all_trees += six[:1200]     # a seeded sample of the next size (two-branch patterns with a repetition need six nodes)
    # larger random trees beyond the bound
    def rand_tree(n):
        if n <= 1:
            return ("atom", rnd.choice(ALPHA))
        k = rnd.choice(["opt", "star", "plus", "alt", "seq"])
        if k in ("opt", "star", "plus"):
            return (k, rand_tree(n - 1))
        a = rnd.randint(1, n - 2) if n > 2 else 1
        l, r = rand_tree(a), rand_tree(max(1, n - 1 - a))
        return ("alt", l, r) if k == "alt" else ("seq", [l, r])
    all_trees += [rand_tree(rnd.randint(5, 8)) for _ in range(100 if tier == "quick" else 1000)]
    # long patterns (9..13 nodes) on words drawn from their own language and near misses: enough automaton states for the state
    # numbering to reach two digits when it starts at 1
    def word(t):
        k = t[0]
        if k == "atom":
            return [t[1]]
        if k == "seq":
            return [x for p_ in t[1] for x in word(p_)]
        if k == "alt":
            return word(rnd.choice(t[1:]))
        if k == "opt":
            return word(t[1]) if rnd.random() < 0.5 else []
        reps = rnd.randint(0 if k == "star" else 1, 2)
        return [x for _ in range(reps) for x in word(t[1])]
    long_jobs = []
    for _ in range(120 if tier == "quick" else 1200):
        t = rand_tree(rnd.randint(9, 13))
        ws = set()
        for _k in range(12):
            w = word(t)[:9]
            ws.add(tuple(w))
            if w:
                i = rnd.randrange(len(w))
                ws.add(tuple(w[:i] + w[i + 1:]))
                ws.add(tuple(w[:i] + [rnd.choice(ALPHA)] + w[i:]))
        long_jobs.append((t, sorted(ws)))
    chunks = [all_trees[i::32] for i in range(32)]
    with Pool(min(16, os.cpu_count() or 2)) as pool:
        results = pool.map(chunk_work, [(prop, c, maxlen) for c in chunks])
        results += pool.map(long_work, [(prop, long_jobs[i::16]) for i in range(16)])
    fails = [f for r in results for f in r["failures"]]
    extra_n = 0
    if prop == "C14":
        hf, extra_n = check_header_shapes(6 if tier == "quick" else 7)
        hf2, n2 = check_isolation(5 if tier == "quick" else 6)
        hf = list(hf) + list(hf2)
        extra_n += n2
        seen_k = {}
        for kind, what, sq in hf:
            seen_k[kind] = seen_k.get(kind, 0) + 1
            if seen_k[kind] <= 2:
                fails.insert(0, {"name": f"C14:{kind}", "what": what, "case": {"header_sequence": sq}, "tags": []})
    print(json.dumps({"evaluations": extra_n + sum(r["evaluations"] for r in results), "distinct_nontrivial": sum(r["distinct"] for r in results),
                      "failures": fails[:60], "samples": [{"pattern": show(all_trees[40]), "sequences": f"all over {ALPHA} up to length {maxlen}"}],
                      "faults": [r["fault"] for r in results if r.get("fault")]}))


if __name__ == "__main__":
    main()
