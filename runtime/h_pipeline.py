#!/venv/bin/python
"""Bounded stand-ins over program texts for C01, C03, C04, C05, C16, C17 (real lexers, real pipeline).

usage: h_pipeline.py <PROP> <tier> <seed>        -> JSON summary on stdout
       h_pipeline.py --replay <file>              -> JSON verdict for one recorded case
Every case is (language, text[, extra]); expected values come from the generator's derivation (canon.py)
or from the property's own relational statement, never from the code under test."""
import itertools
import json
import os
import random
import signal
import sys
import traceback
from multiprocessing import Pool

sys.path.insert(0, os.path.dirname(os.path.abspath(__file__)))
import canon  # noqa

EXT = {"C": "a.c", "C++": "a.cpp", "C#": "a.cs", "Java": "A.java", "JavaScript": "a.js", "TypeScript": "a.ts", "Python": "a.py"}
COMMENT = {"C": ["// c", "/* c */"], "C++": ["// c", "/* c */"], "C#": ["// c", "/* c */"], "Java": ["// c", "/* c */"],
           "JavaScript": ["// c", "/* c */"], "TypeScript": ["// c", "/* c */"], "Python": ["# c"]}


class Timeout(Exception):
    pass


def _alarm(signum, frame):
    raise Timeout()


def analyse(lang, text, keep_tokens=False):
    from pygments.lexers import get_lexer_for_filename
    from codelimit.common.lexer_utils import lex
    from codelimit.common.Scanner import scan_file
    from codelimit.languages import Languages
    lexer = get_lexer_for_filename(EXT[lang])
    signal.signal(signal.SIGALRM, _alarm)
    signal.alarm(20)
    try:
        tokens = lex(lexer, text, False)
        ms = scan_file(tokens, Languages.by_name[lexer.__class__.name])
    finally:
        signal.alarm(0)
    return (ms, tokens) if keep_tokens else ms


def analyse_file(lang, data):
    """the same through a real file (bytes on disk -> scan_path), which adds the reading and decoding step"""
    import tempfile, shutil
    from pathlib import Path
    from codelimit.common.Scanner import scan_path
    from codelimit.common.Configuration import Configuration
    d = tempfile.mkdtemp(prefix="verif_c01_")
    try:
        (Path(d) / EXT[lang]).write_bytes(data)
        Configuration.exclude = []
        signal.signal(signal.SIGALRM, _alarm)
        signal.alarm(20)
        try:
            cb = scan_path(Path(d))
        finally:
            signal.alarm(0)
        e = cb.files.get(EXT[lang])
        return None if e is None else list(e.measurements())
    finally:
        shutil.rmtree(d, ignore_errors=True)


def mtuple(m):
    return {"name": m.unit_name, "start": (m.start.line, m.start.column), "end": (m.end.line, m.end.column), "length": m.value}


MULTILINE_TOKEN_TEXTS = {
    "Java": ['class A {\n  String f() {\n    String s = """\n      a\n      """;\n    return s;\n  }\n}\n',
             'class A {\n  int g() {\n    /* a\n       b */ int x = 1;\n    return x;\n  }\n}\n'],
    "C": ["#define DECL(n) \\\n  int n(void) { \\\n    return 0; \\\n  }\n\nint g(void) {\n#define X \\\n   1\n  return X;\n}\n",
          'int f(void) {\n  char *s = "a\\\nb";\n  return 0;\n}\n'],
    "C++": ["#define DECL(n) \\\n  int n(void) { \\\n    return 0; \\\n  }\n\nint g(void) {\n#define X \\\n   1\n  return X;\n}\n"],
    "indent": ["def f():\n    x = 1 + \\\n2\n    return x\n", 'def g():\n    s = """a\n  b\n"""\n    return s\n',
               "def h():\n    x = (1 +\n2)\n    return x\n"],
    "brace": ["function f() {\n  const s = `a\n  b`;\n  return s;\n}\n", "function g() {\n  /* a\n  b */ x = 1;\n  return x;\n}\n"],
}


# ------------------------------------------------------------------------------------------- C01
def check_c01(lang, text, expected, tags):
    fails = []
    try:
        got = [mtuple(m) for m in analyse(lang, text)]
    except Timeout:
        return [("hang", "analysis did not terminate within 20 s")]
    except Exception as e:  # noqa
        return [("exception", f"{type(e).__name__}: {e}")]
    exp = [{k: tuple(v) if isinstance(v, (list, tuple)) else v for k, v in e.items() if k != "depth"} for e in expected]
    gnames = sorted(g["name"] for g in got)
    enames = sorted(e["name"] for e in exp)
    if gnames != enames:
        missing = [n for n in enames if n not in gnames]
        extra = [n for n in gnames if n not in enames]
        fails.append(("discovery", f"expected functions {enames}, reported {gnames} (missing {missing}, extra {extra})"))
        return fails
    gby = {g["name"]: g for g in got}

    def inside(a, b):
        return a is not b and tuple(b["start"]) <= tuple(a["start"]) and tuple(a["end"]) <= tuple(b["end"])
    for e in exp:
        g = gby[e["name"]]
        up, down = any(inside(e, o) for o in exp), any(inside(o, e) for o in exp)
        role = "unit-role:" + ("middle" if up and down else "outer" if down else "inner" if up else "flat")
        if tuple(g["start"]) != tuple(e["start"]):
            fails.append(("span-start", f"{e['name']}: start {g['start']} expected {e['start']}", role))
        if tuple(g["end"]) != tuple(e["end"]):
            fails.append(("span-end", f"{e['name']}: end {g['end']} expected {e['end']}", role))
        if g["length"] != e["length"]:
            fails.append(("length", f"{e['name']}: length {g['length']} expected {e['length']}", role))
    return fails


# ------------------------------------------------------------------------------------------- C05 / C03
def offsets(text):
    starts = [0]
    for i, ch in enumerate(text):
        if ch == "\n":
            starts.append(i + 1)
    return starts


def advance(line, col, value):
    for ch in value:
        if ch == "\n":
            line += 1
            col = 1
        else:
            col += 1
    return line, col


def check_c05(lang, text):
    try:
        ms, tokens = analyse(lang, text, keep_tokens=True)
    except Timeout:
        return [("hang", "analysis did not terminate within 20 s")]
    except Exception as e:  # noqa
        return [("exception", f"{type(e).__name__}: {e}")]
    from codelimit.common.source_utils import filter_tokens
    code = filter_tokens(tokens)
    lines = text.split("\n")
    n = len(lines)
    fails = []
    starts = {(t.location.line, t.location.column) for t in code}
    ends = {advance(t.location.line, t.location.column, t.value) for t in code}
    code_lines = {t.location.line for t in code}
    prev = None
    for m in ms:
        s, e = (m.start.line, m.start.column), (m.end.line, m.end.column)
        if not (1 <= s[0] <= e[0] <= n):
            fails.append(("lines-out-of-range", f"{m.unit_name}: lines {s[0]}..{e[0]} of {n}"))
            continue
        if not (1 <= s[1] <= len(lines[s[0] - 1]) + 1) or not (1 <= e[1] <= len(lines[e[0] - 1]) + 1):
            fails.append(("column-out-of-range", f"{m.unit_name}: start {s} end {e}"))
        if s not in starts:
            fails.append(("start-not-at-code-token", f"{m.unit_name}: {s}"))
        if e not in ends:
            fails.append(("end-not-just-past-code-token", f"{m.unit_name}: {e}"))
        inside = [t for t in code if t.is_name() and s <= (t.location.line, t.location.column) < e]
        if m.unit_name not in [t.value for t in inside]:
            fails.append(("name-not-an-identifier-in-span", f"{m.unit_name}"))
        bearing = len([l for l in code_lines if s[0] <= l <= e[0]])
        if not (1 <= m.value <= bearing):
            fails.append(("length-out-of-range", f"{m.unit_name}: {m.value} not in 1..{bearing}"))
        if prev is not None and not (prev < s):
            fails.append(("order-or-duplicate-start", f"{m.unit_name}: start {s} after {prev}"))
        prev = s
    return fails


def malformed_variants(text, rnd, limit):
    """prefixes, suffixes, single line deletions/duplications/swaps of a program text."""
    lines = text.split("\n")
    out = []
    cut_points = list(range(0, len(text) + 1, max(1, len(text) // 12)))
    for c in cut_points:
        out.append(("prefix", text[:c]))
        out.append(("suffix", text[c:]))
    for i in range(min(len(lines), 10)):
        out.append(("delete-line", "\n".join(lines[:i] + lines[i + 1:])))
        out.append(("dup-line", "\n".join(lines[:i + 1] + lines[i:])))
        if i + 1 < len(lines):
            out.append(("swap-lines", "\n".join(lines[:i] + [lines[i + 1], lines[i]] + lines[i + 2:])))
    rnd.shuffle(out)
    return out[:limit]


SOUP = {
    "brace": ["f", "(", ")", "{", "}", "x", ";", "\n", "=", "=>", "const", "function", ",", "class", "throws", "new", ":"],
    "indent": ["def", "f", "(", ")", ":", "\n", "    ", "x", "=", "1", "\\\n", "async", '"""a\n  b"""', "#c", ","],
}


def soups(lang, rnd, count, maxlen):
    alpha = SOUP[canon.LANGS[lang][1]]
    for _ in range(count):
        n = rnd.randint(1, maxlen)
        yield " ".join(rnd.choice(alpha) for _ in range(n)).replace(" \n ", "\n")


def sketches(lang, rnd, count):
    """Structured random programs: well-formed nests of functions whose layout is random - several functions on one physical
    line, one-line functions without a block of their own, docstrings that contain characters str.splitlines() treats as line
    ends, single-token lines."""
    flavour = canon.LANGS[lang][1]
    seps = ["\x0c", "\x0b", "\u2028", "\x85", "\x1c", "\r"]
    for _ in range(count):
        names = iter("g%d" % i for i in itertools.count())
        if flavour == "indent":
            lines = []

            def block(depth, budget):
                ind = "    " * depth
                k = rnd.randint(1, 4)
                for j in range(k):
                    r = rnd.random()
                    if r < 0.3 and budget > 0 and depth < 3:
                        lines.append(f"{ind}def {next(names)}(a):")
                        block(depth + 1, budget - 1)
                    elif r < 0.45:
                        lines.append(f"{ind}def {next(names)}(): pass")
                    elif r < 0.55:
                        lines.append(f"{ind}pass")
                    elif r < 0.65 and j == k - 1:
                        lines.append(f'{ind}"""a{rnd.choice(seps)}b')
                        lines.append(f'{ind}c"""')
                    elif r < 0.7 and j == k - 1:
                        lines.append(f'{ind}"""a{rnd.choice(seps)}b"""')
                    else:
                        lines.append(f"{ind}x = {j}")
            block(0, 3)
            yield "\n".join(lines) + rnd.choice(["", "\n"])
        else:
            toks = []

            def fn(depth, budget):
                head = canon.header_c(lang, canon.Func(next(names), 1), "")[0]
                toks.extend([head, "{"])
                for j in range(rnd.randint(0, 3)):
                    if rnd.random() < 0.3 and budget > 0 and canon.NESTING[lang] and lang not in ("C++", "C#", "Java"):
                        fn(depth + 1, budget - 1)
                    else:
                        toks.append(rnd.choice([";", "x = 1;", "foo(x);"]))
                toks.append("}")
            wrap = lang in ("Java", "C#")
            if wrap:
                toks.extend(["class A", "{"])
            for _k in range(rnd.randint(1, 4)):
                fn(0, 2)
                if rnd.random() < 0.3:
                    toks.append("int y = 0;" if lang not in ("JavaScript", "TypeScript") else "let y = 0;")
            if wrap:
                toks.append("}")
            p_line = rnd.choice([0.0, 0.3, 0.7, 1.0])      # 0.0: the whole program on one physical line
            out = toks[0]
            for t in toks[1:]:
                out += ("\n" if rnd.random() < p_line else " ") + t
            yield out + "\n"


# ------------------------------------------------------------------------------------------- C16
def check_c16(lang, text):
    from pygments.lexers import get_lexer_for_filename
    from codelimit.common.lexer_utils import lex
    fails = []
    starts = offsets(text)
    for filt in (True, False):
        try:
            toks = lex(get_lexer_for_filename(EXT[lang]), text, filt)
        except Exception as e:  # noqa
            return [("exception", f"{type(e).__name__}: {e}")]
        prev_end = -1
        for t in toks:
            ln, col = t.location.line, t.location.column
            if not (1 <= ln <= len(starts)) or col < 1:
                fails.append(("position-out-of-range", f"{t.value!r} at {(ln, col)}"))
                break
            off = starts[ln - 1] + col - 1
            line_end = starts[ln] - 1 if ln < len(starts) else len(text)
            if off > line_end:
                fails.append(("column-past-end-of-line", f"{t.value!r} at {(ln, col)}: line {ln} has {line_end - starts[ln - 1]} columns"))
                break
            if text[off:off + len(t.value)] != t.value:
                fails.append(("text-at-position-differs", f"{t.value!r} at {(ln, col)} finds {text[off:off + len(t.value)]!r}"))
                break
            if not (off > prev_end - 1 and off >= prev_end):
                fails.append(("overlap-or-order", f"{t.value!r} at offset {off}, previous token ended at {prev_end}"))
                break
            if len(t.value) == 0 or off + len(t.value) <= prev_end:
                fails.append(("not-strictly-increasing", f"empty or repeated position: {t.value!r} at offset {off}"))
                break
            prev_end = off + len(t.value)
            from pygments.token import Text as _Text
            if t.is_whitespace() or (t.token_type in _Text and t.value.strip() == ""):
                fails.append(("whitespace-kept", f"{t.value!r} at {(ln, col)}"))
                break
            if filt and t.is_comment():
                fails.append(("comment-kept-when-filtered", f"{t.value!r}"))
                break
        if not filt:
            # comments kept exactly when requested: every comment the lexer produces must be present
            lexer = get_lexer_for_filename(EXT[lang])
            from pygments.token import Comment
            want = [v for _, ty, v in lexer.get_tokens_unprocessed(text) if ty in Comment and len(v) > 0]
            have = [t.value for t in toks if t.is_comment()]
            if want != have:
                fails.append(("comment-dropped", f"lexer comments {want[:3]} kept {have[:3]}"))
    return fails


C16_TEXTS = {
    "brace": ["x = 1\n// c\ny = 2", "int f(){\n  /* a\n b\n c\n d */ return 1;\n}\n", "a\n\n\nb", "\tint x;\n", "x=1", "x=1\n",
              "#define A 1\nint f(){}\n", "s = \"é😀\"; y\n", "/* a */ /* b */\n", "\n\nx", "a // c\n", "f(\n)\n{\n}\n", "x\r\ny\n",
              "a\x0cb\nc", "a b\nc d", "int f() {\n  return 1; // t\n}\n"],
    "indent": ["x = 1\n# c\ny = 2", 'def f():\n    """a\n    b\n    c"""\n    return 1\n', "a\n\n\nb", "\tx = 1\n", "x=1", "x=1\n",
               "s = 'é😀'; y\n", "\n\nx", "a # c\n", "f(\n)\n", "x = \\\n  1\n", "x\r\ny\n", "a\x0cb\nc", "a = ' '\nb c"],
}
# comment tokens of unusual kinds: disabled code, HTML-style markers, preprocessor lines, doc comments, shebang lines
C16_TEXTS["brace"] += ["#if 0\nint dead() {\n  x;\n}\n#endif\nint f() {\n  return 1;\n}\n", "<!-- x\nfunction f() {\n}\n--> y\n",
                       "#include <a.h>\n#pragma once\n#define M(x) \\\n  x\nint f(){}\n", "/** doc */ int f() {\n  /// t\n  return 1;\n}\n",
                       "#!/usr/bin/env node\nx = 1\n"]
C16_TEXTS["indent"] += ["#!/usr/bin/env python\n# -*- coding: utf-8 -*-\nx = 1\n", "x = 1  # type: ignore\n'''doc'''\n"]


# ------------------------------------------------------------------------------------------- C04
def insertions(lang, text, rnd, limit):
    lines = text.split("\n")
    out = []
    odd_comment = [c.replace(" c", " see nocl docs, relies on noclobber") for c in COMMENT[lang][:1]] + \
                  [c.replace(" c", " c\x0c d") for c in COMMENT[lang][:1]] + [c.replace(" c", " c\u2028 d") for c in COMMENT[lang][:1]]
    odd_blank = ["\x0c", "\u00a0", "\u3000 ", "\t", "\x0b"] if lang != "Python" else ["\x0c", "\t"]
    for style in COMMENT[lang] + ["", "   "] + odd_comment + odd_blank:
        for at in range(len(lines)):
            out.append((at, style))
    rnd.shuffle(out)
    cases = []
    for at, style in out[:limit]:
        new = lines[:at] + [style] + lines[at:]
        cases.append(("insert-line", at + 1, 1, "\n".join(new)))
    # trailing comments / whitespace on every line, several simultaneous insertions
    tc = COMMENT[lang][0]
    cases.append(("trailing-comment", None, 0, "\n".join((l + "  " + tc) if l.strip() else l for l in lines)))
    tc2 = tc.replace(" c", " relies on shell noclobber, see https://nocl.example.org")
    cases.append(("trailing-comment-mentioning-nocl", None, 0, "\n".join((l + "  " + tc2) if l.strip() else l for l in lines)))
    cases.append(("trailing-space", None, 0, "\n".join(l + "   " for l in lines)))
    multi = []
    shift_points = sorted(rnd.sample(range(len(lines)), min(3, len(lines))))
    cases.append(("insert-3-lines", shift_points, 3, None))
    return cases


def check_c04(lang, text):
    base = [mtuple(m) for m in analyse(lang, text)]
    rnd = random.Random(len(text))
    lines = text.split("\n")
    fails = []
    n = 0
    for kind, at, k, new in insertions(lang, text, rnd, 26):
        if kind == "insert-3-lines":
            pts = at
            new_lines = []
            for i, l in enumerate(lines):
                if i in pts:
                    new_lines.append(COMMENT[lang][0])
                new_lines.append(l)
            new = "\n".join(new_lines)
            shift = lambda ln: ln + sum(1 for p in pts if p < ln)
        elif at is not None:
            shift = lambda ln, at=at: ln + (1 if ln >= at else 0)
        else:
            shift = lambda ln: ln
        try:
            got = [mtuple(m) for m in analyse(lang, new)]
        except Exception as e:  # noqa
            fails.append((f"{kind}:exception", f"{type(e).__name__}: {e}", new))
            continue
        n += 1
        exp = [{"name": b["name"], "length": b["length"], "start_line": shift(b["start"][0]), "end_line": shift(b["end"][0])} for b in base]
        gg = [{"name": g["name"], "length": g["length"], "start_line": g["start"][0], "end_line": g["end"][0]} for g in got]
        if gg != exp:
            fails.append((f"{kind}:changed", f"before {exp} after {gg}", new))
    return fails, n


# ------------------------------------------------------------------------------------------- C17
COMMENT_LINE = {"brace": "// c", "indent": "# c"}
MARKERS = {"brace": ["// nocl", "//NOCL", "/* nocl */", "//   NoCl because", "/*nocl*/"], "indent": ["# nocl", "#NOCL", "#   NoCl because"]}
NON_MARKERS = {"brace": ["// not nocl", "// see nocl docs", "/* x nocl */", "// was: f(a, b) // nocl", "/* old /* nocl */", "// x ;nocl", "// x #nocl"],
               "indent": ["# not nocl", "# see nocl", "# was: def f(a, b):  # nocl", "# x ;nocl", "# x //nocl"]}


def check_c17(lang, rnd):
    fails = []
    n = 0
    flav = canon.LANGS[lang][1]
    for marker in MARKERS[flav]:
        fs = [canon.Func("alpha", 2), canon.Func("beta", 3, marker=marker), canon.Func("gamma", 17)]
        w = canon.render(lang, fs, rnd)
        plain = canon.render(lang, [canon.Func("alpha", 2), canon.Func("beta", 3), canon.Func("gamma", 17)], rnd)
        try:
            got = [mtuple(m) for m in analyse(lang, w.text())]
            ref = [mtuple(m) for m in analyse(lang, plain.text())]
        except Exception as e:  # noqa
            fails.append(("exception", f"{type(e).__name__}: {e}", w.text()))
            continue
        n += 1
        if [g["name"] for g in got] != ["alpha", "gamma"]:
            fails.append(("marked-not-omitted-or-others-lost", f"marker {marker!r}: reported {[g['name'] for g in got]}", w.text()))
            continue
        try:
            ms = analyse_file(lang, w.text().encode())      # the same through scan_path on a real file
            if ms is None or [mtuple(m) for m in ms] != got:
                fails.append(("file-on-disk-differs", f"marker {marker!r}: the scanned file reports {None if ms is None else [m.unit_name for m in ms]}, "
                              f"the text itself {[g['name'] for g in got]}", w.text()))
        except Exception as e:  # noqa
            fails.append(("exception", f"{type(e).__name__}: {e}", w.text()))
        others = [r for r in ref if r["name"] != "beta"]
        if got != others:
            fails.append(("marking-changed-another-function", f"marker {marker!r}: {got} vs {others}", w.text()))
    for nm in NON_MARKERS[flav]:
        w = canon.render(lang, [canon.Func("alpha", 2), canon.Func("beta", 3, marker=nm), canon.Func("gamma", 17)], rnd)
        try:
            got = [m.unit_name for m in analyse(lang, w.text())]
        except Exception as e:  # noqa
            fails.append(("exception", f"{type(e).__name__}: {e}", w.text()))
            continue
        n += 1
        if got != ["alpha", "beta", "gamma"]:
            fails.append(("non-marker-comment-suppressed", f"comment {nm!r}: reported {got}", w.text()))
    # several marker comments on non-function lines before a marked function; marked function must still be omitted
    pre = [COMMENT_LINE[flav].replace("c", "nocl a"), COMMENT_LINE[flav].replace("c", "nocl b"), COMMENT_LINE[flav].replace("c", "nocl c")]
    w = canon.render(lang, [("comment", "\n".join(pre)), canon.Func("alpha", 2), ("comment", pre[0]), canon.Func("beta", 3, marker=MARKERS[flav][0]),
                            canon.Func("gamma", 2)], rnd) if lang not in ("Java", "C#") else None
    if w is not None:
        try:
            got = [m.unit_name for m in analyse(lang, w.text())]
            n += 1
            if got != ["alpha", "gamma"]:
                fails.append(("marker-comments-elsewhere-confuse", f"reported {got}, expected ['alpha', 'gamma']", w.text()))
        except Exception as e:  # noqa
            fails.append(("exception", f"{type(e).__name__}: {e}", w.text()))
    # marking an enclosing function must not drop the (unmarked) nested one
    if canon.NESTING[lang] and lang not in ("C++", "C#", "Java"):
        outer = canon.Func("outer", 3, {1: canon.Func("inner", 2)}, marker=MARKERS[flav][0])
        w = canon.render(lang, [outer, canon.Func("after", 2)], rnd)
        try:
            got = [m.unit_name for m in analyse(lang, w.text())]
            n += 1
            if got != ["inner", "after"]:
                fails.append(("marked-encloser-drops-nested", f"reported {got}, expected ['inner', 'after']", w.text()))
        except Exception as e:  # noqa
            fails.append(("exception", f"{type(e).__name__}: {e}", w.text()))
    # marker on another line (inside the body) must not suppress
    w = canon.render(lang, [canon.Func("alpha", 2), canon.Func("beta", 3)], rnd)
    lines = w.text().split("\n")
    for i, l in enumerate(lines):
        if "beta" in l:
            lines[i + 1] += "  " + MARKERS[flav][0]
            break
    txt = "\n".join(lines)
    try:
        got = [m.unit_name for m in analyse(lang, txt)]
        n += 1
        if got != ["alpha", "beta"]:
            fails.append(("marker-on-other-line-suppressed", f"reported {got}", txt))
    except Exception as e:  # noqa
        fails.append(("exception", f"{type(e).__name__}: {e}", txt))
    # structured random programs: marking the name line of functions that neither enclose nor are nested in another one
    # removes exactly the functions named on that line and leaves every other measurement as it was
    for t in sketches(lang, rnd, 60):
        try:
            ref = [mtuple(m) for m in analyse(lang, t)]
        except Exception:  # noqa
            continue   # totality is C03's statement

        def related(a, b):
            return a is not b and (tuple(b["start"]) <= tuple(a["start"]) <= tuple(b["end"]) or tuple(a["start"]) <= tuple(b["start"]) <= tuple(a["end"]))
        lines = t.split("\n")
        for L in sorted({m["start"][0] for m in ref}):
            here = [m for m in ref if m["start"][0] == L]
            if any(related(m, o) for m in here for o in ref):
                continue
            if any('"""' in x for x in lines[L - 1:L]):
                continue
            marked = "\n".join(lines[:L - 1] + [lines[L - 1] + "  " + MARKERS[flav][0]] + lines[L:])
            try:
                got = [mtuple(m) for m in analyse(lang, marked)]
            except Exception as e:  # noqa
                fails.append(("exception", f"{type(e).__name__}: {e}", marked))
                continue
            n += 1
            want = [m for m in ref if m["start"][0] != L]
            if got != want:
                fails.append(("marking-changed-another-function", f"marker appended to line {L}: reported {[(g['name'], g['start'], g['end'], g['length']) for g in got]}, "
                              f"expected {[(g['name'], g['start'], g['end'], g['length']) for g in want]}", marked))
    return fails, n


# ------------------------------------------------------------------------------------------- driver
def work(job):
    prop, lang, tier, seed = job
    rnd = random.Random(seed * 1009 + sum(map(ord, lang)))
    res = {"lang": lang, "evaluations": 0, "distinct": set(), "failures": [], "samples": []}

    def fail(kind, what, text, extra=None, tags=()):
        res["failures"].append({"name": f"{prop}:{lang}:{kind}", "what": what, "language": lang, "text": text, "tags": sorted(tags),
                                "extra": extra})
    try:
        progs = list(canon.programs(lang, tier, seed))
        if prop == "C01":
            for w in progs:
                res["evaluations"] += 1
                res["distinct"].add(hash(w.text()))
                for kind, what, *role in check_c01(lang, w.text(), w.expected, w.tags):
                    fail(kind, what, w.text(), {"expected": w.expected}, set(w.tags) | set(role))
                # the file on disk, with LF and with CRLF line ends: the same measurements as the text itself
                try:
                    direct = [mtuple(m) for m in analyse(lang, w.text())]
                    for ends, data in (("LF", w.text().encode()), ("CRLF", w.text().replace("\n", "\r\n").encode())):
                        res["evaluations"] += 1
                        ms = analyse_file(lang, data)
                        got = None if ms is None else [mtuple(m) for m in ms]
                        if got != direct:
                            fail("file-on-disk", f"{ends} file: {got} but the text itself gives {direct}", w.text(), {"line_ends": ends}, set(w.tags))
                except Exception as e:  # noqa
                    if not isinstance(e, Timeout):
                        fail("file-on-disk", f"{type(e).__name__}: {e}", w.text(), None, set(w.tags))
            # a file that is not valid UTF-8 (Latin-1 bytes in identifiers and comments) is read as Latin-1: same result as the text
            for w in progs[1:8:2]:
                if not w.expected:
                    continue
                nm = w.expected[0]["name"]
                t2 = w.text().replace(nm, "gr\u00f6\u00dfe_" + nm) + COMMENT[lang][0] + " caf\u00e9\n"
                try:
                    res["evaluations"] += 1
                    direct = [mtuple(m) for m in analyse(lang, t2)]
                    ms = analyse_file(lang, t2.encode("latin-1"))
                    got = None if ms is None else [mtuple(m) for m in ms]
                    if got != direct:
                        fail("file-on-disk", f"Latin-1 file: {got} but the text itself gives {direct}", t2, {"encoding": "latin-1"}, set(w.tags))
                    ms = analyse_file(lang, t2.encode("utf-8"))
                    got = None if ms is None else [mtuple(m) for m in ms]
                    if got != direct:
                        fail("file-on-disk", f"UTF-8 file: {got} but the text itself gives {direct}", t2, {"encoding": "utf-8"}, set(w.tags))
                except Exception as e:  # noqa
                    if not isinstance(e, Timeout):
                        fail("file-on-disk", f"{type(e).__name__}: {e}", t2, None, set(w.tags))
            # characters that str.splitlines() treats as line ends but that are not line ends here: a form-feed-only line on top
            # shifts every span by exactly one line; a comment holding U+2028 / U+000B on the first line shifts nothing
            for w in progs[::3]:
                lines0 = w.text().split("\n")
                cm = COMMENT[lang][0]
                variants = [("page-break-line", "\x0c\n" + w.text(), 1),
                            ("odd-separator-in-comment", "\n".join([lines0[0] + "  " + cm + "\u2028x\x0by"] + lines0[1:]), 0)]
                for vk, vt, shift in variants:
                    res["evaluations"] += 1
                    exp2 = [dict(e, start=(e["start"][0] + shift, e["start"][1]), end=(e["end"][0] + shift, e["end"][1])) for e in w.expected]
                    for kind, what, *role in check_c01(lang, vt, exp2, w.tags):
                        fail(kind, f"[{vk}] " + what, vt, {"expected": exp2}, set(w.tags) | set(role) | {vk})
            # texts with tokens that span physical lines (text blocks, macro continuations, backslash continuations): the
            # file with CRLF line ends gives what the file with LF line ends gives, which is what the text itself gives
            for t in MULTILINE_TOKEN_TEXTS.get(canon.LANGS[lang][1] if lang not in ("Java", "C", "C++") else lang, []):
                try:
                    direct = [mtuple(m) for m in analyse(lang, t)]
                    for ends, data in (("LF", t.encode()), ("CRLF", t.replace("\n", "\r\n").encode())):
                        res["evaluations"] += 1
                        ms = analyse_file(lang, data)
                        got = None if ms is None else [mtuple(m) for m in ms]
                        if got != direct:
                            fail("file-on-disk", f"{ends} file: {got} but the text itself gives {direct}", t, {"line_ends": ends}, {"multi-line-token"})
                except Exception as e:  # noqa
                    if not isinstance(e, Timeout):
                        fail("file-on-disk", f"{type(e).__name__}: {e}", t, None, {"multi-line-token"})
            if lang == "Python":
                import tempfile, shutil
                from pathlib import Path
                from codelimit.common.Scanner import scan_path
                from codelimit.common.Configuration import Configuration
                for w in progs[1:4]:
                    d = tempfile.mkdtemp(prefix="verif_c01_")
                    try:
                        (Path(d) / "Makefile").write_text("all:\n\techo hi\n")
                        (Path(d) / "LICENSE").write_text("text\n")
                        (Path(d) / "site").mkdir()
                        (Path(d) / "site" / "SConstruct").write_text(w.text())
                        (Path(d) / "site" / "README").write_text("text\n")
                        Configuration.exclude = []
                        res["evaluations"] += 1
                        cb = scan_path(Path(d))
                        e = cb.files.get("site/SConstruct")
                        got = None if e is None else [mtuple(m) for m in e.measurements()]
                        direct = [mtuple(m) for m in analyse(lang, w.text())]
                        if got != direct:
                            fail("file-on-disk", f"site/SConstruct next to Makefile and LICENSE: {got} but the text itself gives {direct}", w.text(), None, set(w.tags))
                    except Exception as e:  # noqa
                        fail("file-on-disk", f"{type(e).__name__}: {e}", w.text(), None, set(w.tags))
                    finally:
                        shutil.rmtree(d, ignore_errors=True)
            res["samples"] = [{"language": lang, "text": progs[1].text()[:300], "expected": progs[1].expected}]
        elif prop in ("C05", "C03"):
            cases = [("canonical", w.text(), w.tags) for w in progs]
            for w in progs[:: max(1, len(progs) // (6 if tier == "quick" else 25))]:
                for kind, t in malformed_variants(w.text(), rnd, 40 if tier == "quick" else 120):
                    cases.append((kind, t, w.tags))
            for t in soups(lang, rnd, 150 if tier == "quick" else 1500, 10):
                cases.append(("token-soup", t, ()))
            extra_texts = ["", "\n", "(", ")", "{", "}", "def f(", "def f(a):", "function f(", "f ( ) {", "((((((((((", "}}}}}}",
                           "const f = (cb = () => 0) => {\n}\n", "function foo(a = bar(1)) {\n}\n", 'def f():\n    """a\n    b"""\n',
                           "int f() {\n" * 30 + "}\n" * 30]
            sep_texts = []
            for w in progs[:3]:
                for sep in ("\x0c", "\x0b", "\u2028", "\x85", "\r", "\r\n"):
                    ls = w.text().split("\n")
                    cm = COMMENT[lang][0]
                    sep_texts.append("\n".join([ls[0] + "  " + cm + sep + "x"] + ls[1:]))
                    sep_texts.append("\n".join([cm + " a" + sep + " b"] + ls))
            for t in extra_texts + sep_texts:
                cases.append(("edge", t, ()))
            for t in sketches(lang, rnd, 120 if tier == "quick" else 1500):
                cases.append(("sketch", t, ()))
            for kind, t, tags in cases:
                res["evaluations"] += 1
                res["distinct"].add(hash(t))
                for fk, what in check_c05(lang, t):
                    if prop == "C03" and fk not in ("exception", "hang"):
                        continue
                    if prop == "C05" and fk in ("exception", "hang"):
                        continue   # totality is C03's statement
                    fail(fk, f"[{kind}] {what}", t, None, tags)
            res["samples"] = [{"language": lang, "kind": cases[-20][0], "text": cases[-20][1][:200]}]
        elif prop == "C16":
            texts = [w.text() for w in progs[:: max(1, len(progs) // 10)]] + C16_TEXTS[canon.LANGS[lang][1]]
            texts += list(soups(lang, rnd, 100 if tier == "quick" else 1000, 12))
            for t in texts:
                res["evaluations"] += 1
                res["distinct"].add(hash(t))
                for fk, what in check_c16(lang, t):
                    fail(fk, what, t)
            res["samples"] = [{"language": lang, "text": texts[-1][:200]}]
        elif prop == "C04":
            for w in progs[:: max(1, len(progs) // (8 if tier == "quick" else 40))]:
                fs, n = check_c04(lang, w.text())
                res["evaluations"] += n
                res["distinct"].add(hash(w.text()))
                for fk, what, t in fs:
                    fail(fk, what, t, {"original": w.text()}, w.tags)
            res["samples"] = [{"language": lang, "note": "insertions of blank/comment lines at line boundaries, trailing comments/spaces"}]
        elif prop == "C17":
            fs, n = check_c17(lang, rnd)
            res["evaluations"] += n
            res["distinct"] = set(range(n))
            for fk, what, t in fs:
                fail(fk, what, t)
            res["samples"] = [{"language": lang, "markers": MARKERS[canon.LANGS[lang][1]]}]
    except Exception:
        res["fault"] = traceback.format_exc()[-1200:]
    res["distinct"] = len(res["distinct"])
    return res


def replay(path):
    rp = json.load(open(path))
    prop, lang, kind = rp["obligation"].split(":", 2)
    text = rp["text"]
    if prop == "C01" and kind == "file-on-disk":
        direct = [mtuple(m) for m in analyse(lang, text)]
        fs = []
        enc = (rp.get("extra") or {}).get("encoding") or "utf-8"
        for ends, data in (("LF", text.encode(enc)), ("CRLF", text.replace("\n", "\r\n").encode(enc))):
            ms = analyse_file(lang, data)
            got = None if ms is None else [mtuple(m) for m in ms]
            if got != direct:
                fs.append(("file-on-disk", f"{ends} file: {got} but the text itself gives {direct}"))
    elif prop == "C01":
        fs = check_c01(lang, text, rp["extra"]["expected"], rp.get("tags", []))
    elif prop in ("C05", "C03"):
        fs = check_c05(lang, text)
    elif prop == "C16":
        fs = check_c16(lang, text)
    elif prop == "C04":
        orig = rp["extra"]["original"]
        a = [(m.unit_name, m.value) for m in analyse(lang, orig)]
        b = [(m.unit_name, m.value) for m in analyse(lang, text)]
        fs = [("changed", f"{a} vs {b}")] if a != b else []
    else:
        fs = [("replay-not-supported", "")]
    print(json.dumps({"reproduced": bool(fs), "failures": fs[:3]}))


def main():
    if sys.argv[1] == "--replay":
        return replay(sys.argv[2])
    prop, tier, seed = sys.argv[1], sys.argv[2], int(sys.argv[3])
    jobs = [(prop, lang, tier, seed) for lang in canon.LANGS]
    with Pool(min(7, os.cpu_count() or 2)) as pool:
        results = pool.map(work, jobs)
    out = {"evaluations": sum(r["evaluations"] for r in results), "distinct_nontrivial": sum(r["distinct"] for r in results),
           "failures": [f for r in results for f in r["failures"]], "samples": [s for r in results for s in r["samples"]][:4],
           "faults": [r["fault"] for r in results if r.get("fault")]}
    print(json.dumps(out))


if __name__ == "__main__":
    main()
