#!/venv/bin/python
"""Bounded stand-ins for C07 (totals, profiles, folder tree) and C08 (report document round trip).

usage: h_report.py <PROP> <tier> <seed>   |   h_report.py --replay <file>"""
import itertools
import json
import os
import random
import sys
import traceback

AWKWARD = ['a"b', "back\\slash", "new\nline", "tab\there", "é", "😀", "sp ace", "/", "{}", " x", "\x01", "'q'", ""]
AWKWARD += ["trail\n", "\n", "cr\r", "x\u2028y", "x\u0085y", "x\u2029", "\x0b\x0c", "tab\t"]   # line-end-like characters, also at the very end
LANGS = ["Python", "JavaScript", "C"]


def mk_measurements(rnd, n, name_pool=None):
    from codelimit.common.Measurement import Measurement
    from codelimit.common.Location import Location
    out = []
    line = 1
    for i in range(n):
        v = rnd.choice([1, 2, 15, 16, 30, 31, 60, 61, 100])
        nm = rnd.choice(name_pool) if name_pool else f"f{i}"
        out.append(Measurement(nm, Location(line, 1 + i), Location(line + v, 2), v))
        line += v + 1
    return out


def build_codebase(files, observe=False):
    """files: list of (path, language, measurements) in insertion order; observe: read the whole-codebase statistics after every
    insertion (reading must not change anything, and later insertions must show up in later reads)"""
    from codelimit.common.Codebase import Codebase
    from codelimit.common.SourceFileEntry import SourceFileEntry
    cb = Codebase("/root/dir")
    for path, lang, ms in files:
        cb.add_file(SourceFileEntry(path, "chk" + str(len(path)), lang, sum(m.value for m in ms), list(ms)))
        if observe:
            cb.all_measurements()
            cb.total_loc()
            cb.all_measurements_sorted_by_length_asc()
    cb.aggregate()
    return cb


def cat(v):
    return 0 if v <= 15 else 1 if v <= 30 else 2 if v <= 60 else 3


def profile_of(ms):
    p = [0, 0, 0, 0]
    for m in ms:
        p[cat(m.value)] += m.value
    return p


def check_c07(files):
    fails = []
    try:
        cb = build_codebase(files)
        cb2 = build_codebase(files, observe=True)
    except Exception as e:  # noqa
        return [("exception", f"{type(e).__name__}: {e}")]
    # reading the whole-codebase statistics between insertions changes nothing and is never stale
    want_all = [(m.unit_name, m.value) for _p, _l, ms in files for m in ms]
    for label, c in (("", cb), (" (statistics read after every insertion)", cb2)):
        got_all = sorted((m.unit_name, m.value) for m in c.all_measurements())
        if got_all != sorted(want_all):
            fails.append(("all-measurements", f"all_measurements{label}: {len(got_all)} measurements, expected {len(want_all)}"))
        if c.total_loc() != sum(v for _n, v in want_all):
            fails.append(("total-loc", f"total_loc{label}: {c.total_loc()} expected {sum(v for _n, v in want_all)}"))
        for path, _lang, ms in files:
            got_ms = [(m.unit_name, m.value) for m in c.files[path].measurements()]
            if got_ms != [(m.unit_name, m.value) for m in ms] or c.files[path].loc != sum(m.value for m in ms):
                fails.append(("file-measurements", f"{path}{label}: holds {len(got_ms)} measurements / loc {c.files[path].loc}, was given {len(ms)} "
                              f"/ {sum(m.value for m in ms)}"))
                break
    try:
        from codelimit.common.report.Report import Report
        if Report(cb2).quality_profile() != profile_of([m for _p, _l, ms in files for m in ms]):
            fails.append(("quality-profile", f"quality profile of the report {Report(cb2).quality_profile()} expected {profile_of([m for _p, _l, ms in files for m in ms])}"))
    except Exception as e:  # noqa
        fails.append(("exception", f"quality_profile: {type(e).__name__}: {e}"))
    from codelimit.common.ScanTotals import ScanTotals
    # per-language totals
    for lang in {f[1] for f in files}:
        fl = [f for f in files if f[1] == lang]
        t = cb.totals.get(lang)
        exp = (len(fl), sum(sum(m.value for m in f[2]) for f in fl), sum(len(f[2]) for f in fl),
               sum(1 for f in fl for m in f[2] if cat(m.value) == 2), sum(1 for f in fl for m in f[2] if cat(m.value) == 3))
        got = None if t is None else (t.files, t.loc, t.functions, t.hard_to_maintain, t.unmaintainable)
        if got != exp:
            fails.append(("language-totals", f"{lang}: totals {got} expected {exp}"))
    if set(cb.totals) != {f[1] for f in files}:
        fails.append(("language-set", f"{sorted(cb.totals)}"))
    # the scan path: a fresh ScanTotals() fed entry by entry must equal the codebase totals (also the second time)
    for attempt in (1, 2):
        live = ScanTotals()
        for path, lang, ms in files:
            live.add(cb.files[path])
        lv = {t.language: (t.files, t.loc, t.functions, t.hard_to_maintain, t.unmaintainable) for t in live.languages_totals()}
        cv = {k: (t.files, t.loc, t.functions, t.hard_to_maintain, t.unmaintainable) for k, t in cb.totals.items()}
        if lv != cv:
            fails.append(("live-totals", f"ScanTotals() fed with the same entries (run {attempt} in this process): {lv} expected {cv}"))
            break
    st = ScanTotals(cb.totals)
    grand = (st.total_files(), st.total_loc(), st.total_functions(), st.total_hard_to_maintain(), st.total_unmaintainable())
    exp = (len(files), sum(sum(m.value for m in f[2]) for f in files), sum(len(f[2]) for f in files),
           sum(1 for f in files for m in f[2] if cat(m.value) == 2), sum(1 for f in files for m in f[2] if cat(m.value) == 3))
    if grand != exp:
        fails.append(("grand-totals", f"{grand} expected {exp}"))
    # file profiles partition the line total
    for path, lang, ms in files:
        e = cb.files.get(path)
        if e is None:
            fails.append(("file-missing", path))
            continue
        if e.profile() != profile_of(ms) or sum(e.profile()) != e.loc:
            fails.append(("file-profile", f"{path}: {e.profile()} loc {e.loc} expected {profile_of(ms)}"))
    # folder profiles and tree
    folders = {"./"}
    for path, _, _ in files:
        parts = path.split(os.sep)
        for k in range(1, len(parts)):
            folders.add(os.sep.join(parts[:k]) + "/")
    if set(cb.tree) != folders:
        fails.append(("folder-set", f"{sorted(cb.tree)} expected {sorted(folders)}"))
    for folder in folders:
        prefix = "" if folder == "./" else folder
        below = [f for f in files if f[0].startswith(prefix)]
        exp = [sum(profile_of(f[2])[k] for f in below) for k in range(4)]
        got = cb.tree[folder].profile if folder in cb.tree else None
        if got != exp:
            fails.append(("folder-profile", f"{folder}: {got} expected {exp}"))
        if folder in cb.tree:
            names = [e.name for e in cb.tree[folder].entries]
            exp_files = [f[0].split(os.sep)[-1] for f in files if os.sep.join(f[0].split(os.sep)[:-1]) + "/" == (prefix if prefix else "/") or
                         (folder == "./" and os.sep not in f[0])]
            exp_dirs = sorted({d[len(prefix):].split("/")[0] + "/" for d in folders if d != folder and d.startswith(prefix)
                               and d[len(prefix):].count("/") == 1})
            if sorted(names) != sorted(exp_files + exp_dirs):
                fails.append(("tree-entries", f"{folder}: lists {sorted(names)} expected {sorted(exp_files + exp_dirs)}"))
    root = cb.tree["./"].profile if "./" in cb.tree else None
    whole = [sum(profile_of(f[2])[k] for f in files) for k in range(4)]
    if root != whole:
        fails.append(("root-profile", f"{root} expected {whole}"))
    return fails


def path_sets(rnd, tier):
    names = ["a", "b"]
    files = ["x.py", "y.js"]
    pool = []
    for depth in range(0, 4):
        for dirs in itertools.product(names, repeat=depth):
            for f in files:
                pool.append(os.sep.join(list(dirs) + [f]))
    pool += ["co/x.py", "core/x.py", "core/sub/y.js", "test/x.py", "tests/x.py", "src/main/app/core.py", "src/main/x.py"]
    out = []
    for k in (1, 2, 3):
        for combo in itertools.islice(itertools.combinations(pool, k), 0, None, 37 if k == 3 else (5 if k == 2 else 1)):
            out.append(list(combo))
    for _ in range(60 if tier == "quick" else 600):
        out.append(rnd.sample(pool, rnd.randint(2, 5)))
    return out


# ------------------------------------------------------------------ C08
def strip_ts(doc):
    d = json.loads(doc)
    d.pop("timestamp", None)
    return d


def check_c08(files, root, repo, version):
    from codelimit.common.report.Report import Report
    from codelimit.common.report.ReportWriter import ReportWriter
    from codelimit.common.report.ReportReader import ReportReader
    from codelimit.common.GithubRepository import GithubRepository
    fails = []
    try:
        cb = build_codebase(files)
        cb.root = root
        r = Report(cb, GithubRepository(*repo) if repo else None)
        if version is not None:
            r.version = None if version == "<none>" else version      # "<none>": a report that carries no version
        pretty = ReportWriter(r).to_json()
        compact = ReportWriter(r, pretty_print=False).to_json()
    except Exception as e:  # noqa
        return [("exception-writing", f"{type(e).__name__}: {e}")]
    try:
        dp, dc = json.loads(pretty), json.loads(compact)
    except Exception as e:  # noqa
        return [("invalid-json", f"{type(e).__name__}: {e}")]
    if dp != dc:
        fails.append(("pretty-compact-differ", "pretty and compact documents parse to different values"))
    try:
        r2 = ReportReader.from_json(pretty)
    except Exception as e:  # noqa
        return fails + [("exception-reading", f"{type(e).__name__}: {e}")]
    if r2.version != r.version:
        fails.append(("version-lost", f"{r2.version!r} vs {r.version!r}"))
    try:
        # reading the very same text again (same process) yields the same report; the compact form reads back the same as well
        r3 = ReportReader.from_json(pretty)
        r4 = ReportReader.from_json(compact)
        for label, rx in (("second read of the same text", r3), ("compact form", r4)):
            a = (rx.version, rx.uuid, rx.codebase.root, None if rx.repository is None else (rx.repository.owner, rx.repository.name, rx.repository.branch),
                 list(rx.codebase.files))
            b = (r2.version, r2.uuid, r2.codebase.root, None if r2.repository is None else (r2.repository.owner, r2.repository.name, r2.repository.branch),
                 list(r2.codebase.files))
            if a != b:
                fails.append(("reread-differs", f"{label}: {a} vs first read {b}"))
    except Exception as e:  # noqa
        fails.append(("exception-reading", f"second read: {type(e).__name__}: {e}"))
    if r2.uuid != r.uuid or r2.codebase.root != root:
        fails.append(("uuid-or-root-lost", f"{r2.uuid!r} {r2.codebase.root!r}"))
    rp, rp2 = r.repository, r2.repository
    if (rp is None) != (rp2 is None) or (rp is not None and (rp.owner, rp.name, rp.branch) != (rp2.owner, rp2.name, rp2.branch)):
        fails.append(("repository-lost", f"{rp} vs {rp2}"))
    if list(r2.codebase.files) != [f[0] for f in files]:
        fails.append(("file-order-or-keys", f"{list(r2.codebase.files)}"))
    for path, lang, ms in files:
        e = r2.codebase.files.get(path)
        if e is None:
            continue
        e0 = cb.files[path]
        if (e.checksum(), e.language, e.loc) != (e0.checksum(), e0.language, e0.loc):
            fails.append(("file-fields", path))
        got = [(m.unit_name, m.start.line, m.start.column, m.end.line, m.end.column, m.value) for m in e.measurements()]
        exp = [(m.unit_name, m.start.line, m.start.column, m.end.line, m.end.column, m.value) for m in ms]
        if got != exp:
            fails.append(("measurements", f"{path}: {got[:2]} vs {exp[:2]}"))
    t1 = {k: (v.files, v.loc, v.functions, v.hard_to_maintain, v.unmaintainable) for k, v in cb.totals.items()}
    t2 = {k: (v.files, v.loc, v.functions, v.hard_to_maintain, v.unmaintainable) for k, v in r2.codebase.totals.items()}
    if t1 != t2:
        fails.append(("totals", f"{t2} vs {t1}"))
    p1 = {k: v.profile for k, v in cb.tree.items()}
    p2 = {k: v.profile for k, v in r2.codebase.tree.items()}
    if p1 != p2:
        fails.append(("folder-profiles", f"{p2} vs {p1}"))
    try:
        again = ReportWriter(r2).to_json()
        if strip_ts(again) != strip_ts(pretty):
            fails.append(("rewrite-differs", "writing the re-read report does not reproduce the document (up to timestamp)"))
    except Exception as e:  # noqa
        fails.append(("exception-rewriting", f"{type(e).__name__}: {e}"))
    return fails


# ------------------------------------------------------------------------------------------- C18 (rendered overview and findings)
def render(fn, *args, **kw):
    import io
    from rich.console import Console
    buf = io.StringIO()
    con = Console(file=buf, width=400, color_system=None, force_terminal=False, emoji=False, highlight=False, legacy_windows=False)
    fn(con, *args, **kw) if kw.pop("_console_first", True) else fn(*args, con, **kw)
    return buf.getvalue()


def totals_of(files):
    """{language: [files, functions, loc, hard, unmaintainable]} computed from the inputs"""
    t = {}
    for _p, lang, ms in files:
        r = t.setdefault(lang, [0, 0, 0, 0, 0])
        r[0] += 1
        r[1] += len(ms)
        r[2] += sum(m.value for m in ms)
        r[3] += sum(1 for m in ms if cat(m.value) == 2)
        r[4] += sum(1 for m in ms if cat(m.value) == 3)
    return t


def cell(cur, prev):
    return f"{cur}" if prev is None or cur == prev else f"{cur} ({cur - prev:+d})"


def parse_md_rows(text):
    rows = {}
    order = []
    for line in text.splitlines():
        if "|" not in line or "---" in line or "**Language**" in line:
            continue
        cells = [c.strip().strip("*").strip() for c in line.strip().strip("|").split("|")]
        if len(cells) >= 6:
            rows[cells[0]] = cells[1:6]
            order.append(cells[0])
    return rows, order


def parse_text_rows(text, languages):
    import re
    rows, order = {}, []
    for line in text.splitlines():
        toks = line.strip()
        for lang in languages:
            if toks.startswith(lang + " "):
                cells = re.findall(r"-?\d+(?: \([+-]\d+\))?", toks[len(lang):])
                rows[lang] = cells
                order.append(lang)
    # the footer row holds the totals: a row of five figures that does not start with a language name
    for line in text.splitlines():
        toks = line.strip()
        if toks and not any(toks.startswith(l + " ") for l in languages) and re.fullmatch(r"(?:\s*-?\d+(?: \([+-]\d+\))?){5}\s*", toks):
            rows["Totals"] = re.findall(r"-?\d+(?: \([+-]\d+\))?", toks)
    return rows, order


def check_c18(cur_files, prev_files, full, with_repo):
    from codelimit.common.report.Report import Report
    from codelimit.common.GithubRepository import GithubRepository
    from codelimit.common.report import format_text, format_markdown
    fails = []
    rep = Report(build_codebase(cur_files), GithubRepository("o", "n", "b") if with_repo else None)
    prev = Report(build_codebase(prev_files)) if prev_files is not None else None
    ct, pt = totals_of(cur_files), (totals_of(prev_files) if prev_files is not None else None)
    langs = sorted(ct, key=lambda l: -ct[l][2])
    try:
        md = render(format_markdown.print_totals, rep, prev)
        tx = render(format_text.print_totals, rep, prev)
    except Exception as e:  # noqa
        return [("exception", f"print_totals: {type(e).__name__}: {e}")]
    for fmt, (rows, order) in (("markdown", parse_md_rows(md)), ("text", parse_text_rows(tx, list(ct)))):
        shown = [l for l in order if l in ct]
        locs = [ct[l][2] for l in shown]
        if sorted(shown) != sorted(ct) or len(shown) != len(ct):
            fails.append((f"{fmt}:languages", f"rows for {shown}, expected one per language {sorted(ct)}"))
            continue
        if locs != sorted(locs, reverse=True):
            fails.append((f"{fmt}:order", f"languages not ordered by lines of code: {list(zip(shown, locs))}"))
        for l in ct:
            both = pt is not None and l in pt
            if pt is None:
                want = [str(x) for x in ct[l]]
            elif both:
                want = [cell(c, p) for c, p in zip(ct[l], pt[l])]
            else:
                want = None     # a language that is new in this report: the statement does not fix its annotation
            if want is not None and rows[l] != want:
                fails.append((f"{fmt}:language-row", f"{l}: shown {rows[l]}, expected {want} (current {ct[l]}, previous {pt[l] if both else None})"))
            if want is None and [c.split(" ")[0] for c in rows[l]] != [str(x) for x in ct[l]]:
                fails.append((f"{fmt}:language-row", f"{l}: figures {rows[l]} differ from the stored {ct[l]}"))
        if len(ct) > 1:
            tot = [sum(ct[l][k] for l in ct) for k in range(5)]
            ptot = [sum(pt[l][k] for l in pt) for k in range(5)] if pt is not None else [None] * 5
            want = [cell(c, p) for c, p in zip(tot, ptot)]
            if rows.get("Totals") != want:
                fails.append((f"{fmt}:totals-row", f"shown {rows.get('Totals')}, expected {want} (current {tot}, previous {ptot})"))
    # findings
    units = sorted([(m.value, p, m.unit_name) for p, _l, ms in cur_files for m in ms if m.value > 30], key=lambda u: -u[0])
    try:
        ftx = render(format_text.print_findings, rep, full)
        fmd = render(format_markdown.print_findings, rep, full=full, _console_first=False)
    except Exception as e:  # noqa
        return fails + [("exception", f"print_findings: {type(e).__name__}: {e}")]
    import re
    shown_n = len(units) if full or len(units) <= 10 else 10
    want_lengths = [u[0] for u in units[:shown_n]]
    md_lengths = [int(c[1 if with_repo else 3].strip()) for c in
                  ([x.strip() for x in line.strip().strip("|").split("|")] for line in fmd.splitlines()
                   if line.startswith("|") and "---" not in line and "**" not in line)]
    if md_lengths != want_lengths:
        fails.append(("markdown:findings", f"lengths listed {md_lengths}, expected {want_lengths} (full={full})"))
    # the symbol next to each listed function: warning sign for 31..60, cross for > 60
    def sym_ok(length, row):
        cross = any(ch in row for ch in "\u2716\u274c\u26cc")
        warn = "\u26a0" in row
        return (cross and not warn) if length > 60 else (warn and not cross)
    md_rows = [line for line in fmd.splitlines() if line.startswith("|") and "---" not in line and "**" not in line]
    for length, row in zip(md_lengths, md_rows):
        if not sym_ok(length, row):
            fails.append(("markdown:findings-symbol", f"row {row!r} for a function of length {length}"))
            break
    for row in ftx.splitlines():
        m = re.search(r":\d+:\d+: (\d+) ", row)
        if m and not sym_ok(int(m.group(1)), row):
            fails.append(("text:findings-symbol", f"row {row!r}"))
            break
    tx_lengths = [int(x) for x in re.findall(r":\d+:\d+: (\d+) ", ftx)]
    if tx_lengths != want_lengths:
        fails.append(("text:findings", f"lengths listed {tx_lengths}, expected {want_lengths} (full={full})"))
    more = len(units) - shown_n
    for fmt, out in (("markdown", fmd), ("text", ftx)):
        m = re.search(r"(\d+) more rows", out)
        if more > 0 and (not m or int(m.group(1)) != more):
            fails.append((f"{fmt}:more-rows", f"{m.group(0) if m else None!r}, expected '{more} more rows' ({len(units)} findings, full={full})"))
        if more <= 0 and m:
            fails.append((f"{fmt}:more-rows", f"claims {m.group(0)!r} although every finding is listed ({len(units)} findings, full={full})"))
    return fails


def c18_cases(rnd, tier):
    def files_for(spec):
        out = []
        for lang, nfiles, lens in spec:
            for i in range(nfiles):
                from codelimit.common.Measurement import Measurement
                from codelimit.common.Location import Location
                ms, line = [], 1
                for j, v in enumerate(lens if i == 0 else lens[:1]):
                    ms.append(Measurement(f"f{j}", Location(line, 1), Location(line + v, 2), v))
                    line += v + 1
                out.append((f"{lang.lower()}/m{i}.x", lang, ms))
        return out
    L = ["Python", "JavaScript", "C", "Java"]
    shapes = [
        ([("Python", 1, [31])], None), ([("Python", 2, [31, 61, 10])], [("Python", 2, [31, 61, 10])]),
        ([("Python", 2, [31, 61])], [("Python", 2, [10, 12])]),                  # 0 -> n hard / unmaintainable
        ([("Python", 2, [10, 12])], [("Python", 2, [31, 61])]),                  # n -> 0
        ([("Python", 1, [40]), ("C", 1, [70])], [("Python", 1, [40]), ("C", 1, [70]), ("Java", 1, [35, 65])]),   # language only in previous
        ([("Python", 1, [40]), ("C", 1, [70]), ("Java", 1, [35])], [("Python", 1, [40]), ("C", 1, [70])]),       # language only in current
        ([("Python", 1, [40]), ("C", 2, [70, 5])], [("Python", 2, [40]), ("C", 1, [70, 5])]),                       # totals equal, rows differ
        ([("Python", 3, [31] * 12)], [("Python", 3, [31] * 12)]),                # more than ten findings
        ([("Python", 1, [31] * 10)], None), ([("Python", 1, [31] * 11)], None),
        ([("Python", 1, [5]), ("C", 1, [500])], None),
        ([("Python", 1, [40]), ("C", 1, [70])], []), ([("Python", 2, [40, 61])], []),      # previous report without any file
        ([("Python", 1, []), ("C", 1, [])], [("Python", 1, []), ("C", 2, [])]),             # files without functions
    ]
    for cur, prev in shapes:
        yield files_for(cur), (files_for(prev) if prev is not None else None)
    for _ in range(40 if tier == "quick" else 600):
        def spec():
            return [(l, rnd.randint(1, 3), [rnd.choice([1, 15, 16, 30, 31, 60, 61, 100]) for _ in range(rnd.randint(0, 5))])
                    for l in rnd.sample(L, rnd.randint(1, 4))]
        cur = spec()
        r = rnd.random()
        prev = None if r < 0.2 else (cur if r < 0.3 else spec())
        yield files_for(cur), (files_for(prev) if prev is not None else None)


# ------------------------------------------------------------------------------------------- C19 (rendered summary of real reports)
def check_c19(steps):
    """steps: list of ('add', path, language, measurements) | ('aggregate',). The summary of both formats is rendered after every
    step and compared with the statement computed from the measurements added so far."""
    import re
    from codelimit.common.Codebase import Codebase
    from codelimit.common.SourceFileEntry import SourceFileEntry
    from codelimit.common.report.Report import Report
    from codelimit.common.report import format_text, format_markdown
    fails = []
    cb = Codebase("/root/dir")
    rep = Report(cb)
    prof = [0, 0, 0, 0]
    for k, st in enumerate(steps):
        if st[0] == "add":
            _, path, lang, ms = st
            cb.add_file(SourceFileEntry(path, "chk", lang, sum(m.value for m in ms), ms))
            for m in ms:
                prof[cat(m.value)] += m.value
        else:
            cb.aggregate()
        total = sum(prof)
        for fmt, fn in (("text", format_text.print_summary), ("markdown", format_markdown.print_summary)):
            try:
                out = render(fn, rep)
            except Exception as e:  # noqa
                fails.append((f"{fmt}:exception", f"after {k + 1} steps: {type(e).__name__}: {e}"))
                continue
            row = None
            for line in out.splitlines():
                nums = re.findall(r"(-?\d+)%", line)
                if len(nums) == 3:
                    row = [int(x) for x in nums]
                    break
            if row is None:
                fails.append((f"{fmt}:no-percentages", f"after {k + 1} steps: {out[:200]!r}"))
                continue
            ev, hard, unm = row
            what = f"after steps {[s_[0] for s_ in steps[:k + 1]]}: profile {prof} shown as {row}"
            if not all(0 <= x <= 100 for x in row) or sum(row) != 100:
                fails.append((f"{fmt}:range-or-sum", what))
            if total > 0:
                true = [100 * (prof[0] + prof[1]) / total, 100 * prof[2] / total, 100 * prof[3] / total]
                if any(abs(a - b) >= 2 for a, b in zip(row, true)):
                    fails.append((f"{fmt}:not-within-two-points", what + f", true shares {[round(x, 3) for x in true]}"))
                if (prof[2] * 100000 > total and hard == 0) or (prof[3] * 100000 > total and unm == 0):
                    fails.append((f"{fmt}:shown-as-zero", what))
            necessary = "refactoring necessary" in out
            fine = "no refactoring necessary" in out
            if fine:
                necessary = False
            if necessary != (unm > 0 or hard > 20) or (necessary == fine):
                fails.append((f"{fmt}:verdict", what + f": verdict {'necessary' if necessary else 'not necessary'}"))
    return fails


def c19_cases(rnd, tier):
    vals = [1, 10, 15, 16, 30, 31, 45, 60, 61, 90, 500]
    for _ in range(60 if tier == "quick" else 800):
        steps = []
        for i in range(rnd.randint(1, 4)):
            ms = mk_measurements(rnd, rnd.randint(0, 4))
            for m in ms:
                m.value = rnd.choice(vals)
            steps.append(("add", rnd.choice(["", "a/", "a/b/"]) + f"f{i}.py", rnd.choice(LANGS), ms))
            if rnd.random() < 0.5:
                steps.append(("aggregate",))
        yield steps
    from codelimit.common.Measurement import Measurement
    from codelimit.common.Location import Location

    def one(v):
        return [Measurement("f", Location(1, 1), Location(v, 2), v)]
    # the verdict boundary (hard-to-maintain exactly 20 %, just above, just below), tiny shares, stale aggregates
    yield [("add", "a.py", "Python", one(40) + one(10) * 16)]            # 40 / 200 = 20 %
    yield [("add", "a.py", "Python", one(41) + one(10) * 16)]
    yield [("add", "a.py", "Python", one(39) + one(10) * 16)]
    yield [("add", "a.py", "Python", one(40)), ("add", "b.py", "Python", one(8000))]
    yield [("add", "a.py", "Python", one(10) * 3), ("aggregate",), ("add", "b.py", "Python", one(90))]
    yield [("add", "a.py", "Python", one(10) * 3), ("aggregate",), ("aggregate",), ("add", "d/b.py", "C", one(90)), ("aggregate",)]
    # shares inside the rounding slack of a threshold (large code bases): an unmaintainable share below 0.001 % is shown as 0 % and
    # then no refactoring is declared necessary; a hard-to-maintain share of 20.0004 % is shown as 20 %, which does not exceed 20
    yield [("add", "big.py", "Python", one(15) * 520000 + one(61))]
    yield [("add", "big.py", "Python", one(15) * 320008 + one(60) * 20001)]


def main():
    if sys.argv[1] == "--replay":
        rp = json.load(open(sys.argv[2]))
        c = rp["case"]
        rnd = random.Random(0)
        if rp["obligation"].startswith("C19"):
            from codelimit.common.Measurement import Measurement as _M
            from codelimit.common.Location import Location as _L
            if "generated_case" in c:
                steps = list(c19_cases(random.Random(c["seed"]), c["tier"]))[c["generated_case"]]
            else:
                steps = [tuple(st) if st[0] != "add" else ("add", st[1], st[2], [_M(n, _L(a, b), _L(c2, d), v) for n, a, b, c2, d, v in st[3]]) for st in c["steps"]]
            fs = check_c19(steps)
            print(json.dumps({"reproduced": bool(fs), "failures": fs[:3]}))
            return
        from codelimit.common.Measurement import Measurement
        from codelimit.common.Location import Location
        files = [(p, l, [Measurement(n, Location(a, b), Location(c2, d), v) for n, a, b, c2, d, v in ms]) for p, l, ms in c["files"]]
        if rp["obligation"].startswith("C18") or (rp["obligation"].startswith("C02") and "previous" in c):
            pf = None if c.get("previous") is None else [(p, l, [Measurement(n, Location(a, b), Location(c2, d), v) for n, a, b, c2, d, v in ms]) for p, l, ms in c["previous"]]
            fs = check_c18(files, pf, c["full"], c["repo"])
        elif rp["obligation"].startswith("C07") or rp["obligation"].startswith("C05"):
            fs = check_c07(files)
        else:
            fs = check_c08(files, c["root"], c["repo"], c["version"])
        print(json.dumps({"reproduced": bool(fs), "failures": fs[:3]}))
        return
    prop, tier, seed = sys.argv[1], sys.argv[2], int(sys.argv[3])
    rnd = random.Random(seed)
    fails = []
    evals = 0
    distinct = set()
    samples = []

    def ser(files):
        return [(p, l, [(m.unit_name, m.start.line, m.start.column, m.end.line, m.end.column, m.value) for m in ms]) for p, l, ms in files]
    try:
        if prop in ("C07", "C05"):
            for paths in path_sets(rnd, tier):
                base = [(p, "Python" if p.endswith(".py") else "JavaScript", mk_measurements(rnd, rnd.randint(0, 3))) for p in paths]
                orders = list(itertools.permutations(base)) if len(base) <= 3 else [base, base[::-1], rnd.sample(base, len(base))]
                for files in orders:
                    files = list(files)
                    evals += 1
                    distinct.add(tuple(f[0] for f in files))
                    found = check_c07(files)
                    if prop == "C05":     # C05: a file's line total is the sum of its function lengths, whatever else is in the codebase
                        found = [f_ for f_ in found if f_[0] in ("file-measurements", "total-loc", "all-measurements")]
                    for kind, what in found[:2]:
                        fails.append({"name": f"{prop}:{kind}", "what": what + f" | insertion order {[f[0] for f in files]}",
                                      "case": {"files": ser(files)}, "tags": []})
                if len(fails) > 40:
                    break
            samples = [{"paths": paths}]
        elif prop == "C19":
            for idx, steps in enumerate(c19_cases(rnd, tier)):
                evals += 1
                big = any(st[0] == "add" and len(st[3]) > 500 for st in steps)
                ser_steps = None if big else [(st[0],) if st[0] != "add" else ("add", st[1], st[2], ser([(st[1], st[2], st[3])])[0][2]) for st in steps]
                distinct.add(json.dumps(ser_steps, default=str) if not big else f"case#{idx}")
                for kind, what in check_c19(steps)[:2]:
                    fails.append({"name": f"C19:{kind}", "what": what[:600], "tags": [],
                                  "case": {"steps": ser_steps} if not big else {"generated_case": idx, "seed": seed, "tier": tier}})
                if len(fails) > 30:
                    break
            samples = [{"note": "summaries of both formats rendered after every add_file / aggregate step of generated codebases"}]
        elif prop in ("C18", "C02"):
            for cur, prev in c18_cases(rnd, tier):
                for full in (False, True):
                    for with_repo in (False, True):
                        evals += 1
                        distinct.add(json.dumps([ser(cur), ser(prev) if prev is not None else None], default=str))
                        for kind, what in check_c18(cur, prev, full, with_repo)[:3]:
                            if prop == "C02" and "findings" not in kind and "more-rows" not in kind:
                                continue    # C02 is about the findings list and its symbols only
                            fails.append({"name": f"{prop}:{kind}", "what": what, "tags": [],
                                          "case": {"files": ser(cur), "previous": ser(prev) if prev is not None else None, "full": full, "repo": with_repo}})
                if len(fails) > 40:
                    break
            samples = [{"note": "current/previous reports rendered by the real print_totals / print_findings of both formats"}]
        else:
            pools = AWKWARD + ["plain"]
            cases = []
            for s in pools:
                cases.append(([("d/" + (s or "e") + ".py", "Python", mk_measurements(rnd, 2, [s, "g"]))], "/r/" + s, (s, "n", "b" + s), None))
                cases.append(([("x.py", "Python", mk_measurements(rnd, 1, [s]))], "/root", None, None))
                cases.append(([("x.py", "Python", [])], "/root", ("o", s, None), "0.0.1"))
            cases.append(([("x.py", "Python", mk_measurements(rnd, 2))], "/root", None, "<none>"))
            cases.append(([], "/root", ("o", "n", ""), "<none>"))
            for weird_root in ("/r/", "/r//s", "./rel", "/a/./b", "", "rel/../x", "C:\\x\\y", "/r/ "):
                cases.append(([("x.py", "Python", [])], weird_root, ("o", "n", rnd.choice(["", " ", "main", None])), rnd.choice([None, "<none>"])))
            for _ in range(60 if tier == "quick" else 600):
                n = rnd.randint(0, 3)
                files = []
                used = set()
                for i in range(n):
                    p = rnd.choice(["a", "b/c", rnd.choice(AWKWARD) or "z"]) + f"{i}.py"
                    if p in used:
                        continue
                    used.add(p)
                    files.append((p, rnd.choice(LANGS), mk_measurements(rnd, rnd.randint(0, 3), AWKWARD + ["f"])))
                repo = None if rnd.random() < .5 else (rnd.choice(pools), rnd.choice(pools), rnd.choice(pools + [None]))
                cases.append((files, "/r/" + rnd.choice(pools), repo, rnd.choice([None, None, "9.9.9", "<none>"])))
            # measurement lists that are not in source order must round-trip unchanged as well
            for _ in range(10):
                ms = mk_measurements(rnd, 4, ["f", "g"])
                rnd.shuffle(ms)
                cases.append(([("u.py", "Python", ms)], "/root", None, None))
            for files, root, repo, version in cases:
                evals += 1
                distinct.add(json.dumps([ser(files), root, repo, version], default=str))
                for kind, what in check_c08(files, root, repo, version)[:2]:
                    fails.append({"name": f"C08:{kind}", "what": what + f" | root {root!r} repo {repo!r}",
                                  "case": {"files": ser(files), "root": root, "repo": repo, "version": version}, "tags": []})
            samples = [{"root": cases[0][1], "repository": cases[0][2], "files": ser(cases[0][0])}]
        print(json.dumps({"evaluations": evals, "distinct_nontrivial": len(distinct), "failures": fails[:60], "samples": samples, "faults": []}))
    except Exception:
        print(json.dumps({"evaluations": evals, "distinct_nontrivial": len(distinct), "failures": fails[:60], "samples": samples,
                          "faults": [traceback.format_exc()[-1200:]]}))


if __name__ == "__main__":
    main()
