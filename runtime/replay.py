#!/venv/bin/python
"""Replay one counterexample against the real code: build the inputs, call the real function, evaluate
the failed clause. Prints one JSON object. Exit 0 always (the verdict is in the JSON)."""
import importlib
import json
import os
import sys
import traceback

sys.path.insert(0, os.path.dirname(os.path.abspath(__file__)))
import speclib  # noqa

speclib.install_recorders()


def build(v, memo):
    if isinstance(v, dict):
        if "$ref" in v:
            return memo[v["$ref"]]
        if "$tuple" in v:
            return tuple(build(x, memo) for x in v["$tuple"])
        if "$list" in v:
            l = []
            memo[v["$id"]] = l
            l.extend(build(x, memo) for x in v["$list"])
            return l
        if "$class" in v:
            mod, cn = v["$class"].split(":")
            cls = getattr(importlib.import_module(mod), cn)
            o = cls.__new__(cls)
            memo[v["$id"]] = o
            for f, fv in v["fields"].items():
                try:
                    object.__setattr__(o, f, build(fv, memo))
                except Exception:
                    pass
            return o
        if "$dict" in v:
            return {build(k, memo) if not isinstance(k, (str, int)) else k: build(x, memo) for k, x in v["$dict"]}
        if "$opaque" in v:
            return v["$opaque"]
        if "$ext" in v:
            return make_ext(v["$ext"])
        if "$path" in v:
            from pathlib import Path
            return Path(v["$path"])
        return v
    if isinstance(v, list):
        return [build(x, memo) for x in v]
    return v


def make_ext(kind):
    if kind == "Console":
        from rich.console import Console
        return Console()
    return None


def resolve(key):
    mod, qn = key.split(":")
    m = importlib.import_module(mod)
    o = m
    for part in qn.split("."):
        o = getattr(o, part)
    return o


def install_stubs(stubs, memo):
    """Replace callees that the proof only knows through an assumed summary by the values of the model."""
    import types
    by_fn = {}
    for st in stubs:
        by_fn.setdefault(st["function"], []).append(build(st["returns"], memo))
    for key, vals in by_fn.items():
        mod, qn = key.split(":")
        m = importlib.import_module(mod)
        vals = list(vals)

        def stub(*a, _vals=vals, **k):
            v = _vals[0]
            if len(_vals) > 1:
                _vals.pop(0)
            return v

        if "." in qn:
            cn, mn = qn.split(".", 1)
            setattr(getattr(m, cn), mn, stub)
        else:
            orig = getattr(m, qn)
            for name, mm in list(sys.modules.items()):
                if name.startswith("codelimit") and mm is not None and getattr(mm, qn, None) is orig:
                    setattr(mm, qn, stub)


def main():
    rp = json.load(open(sys.argv[1]))
    out = {"function": rp["function"], "obligation": rp.get("obligation")}
    try:
        fn = resolve(rp["function"])
        memo = {}
        args = {k: build(v, memo) for k, v in rp["inputs"].items()}
        if rp.get("stubs"):
            install_stubs(rp["stubs"], memo)
            out["stubbed_callees"] = sorted({s["function"] for s in rp["stubs"]})
        if rp.get("wrap"):
            speclib.wrap_calls(rp["wrap"])
        env = speclib.base_env()
        env.update(args)
        clause = rp.get("clause")
        oe = speclib.OldEnv(clause, env) if clause else None
        del speclib.TRACE[:]
        del speclib.CALLS[:]
        del speclib.CALL_ARGS[:]
        raised = None
        result = None
        try:
            result = fn(**args)
        except BaseException as e:  # noqa
            raised = e
        out["raised"] = type(raised).__name__ if raised is not None else None
        out["raised_repr"] = repr(raised)[:300] if raised is not None else None
        out["result_repr"] = repr(result)[:500]
        out["trace"] = [repr(e)[:200] for e in speclib.TRACE[:20]]
        kind = rp.get("kind", "postcondition")
        if kind == "call-site":
            # evaluate the clause at every call of the callee, with the caller's locals and arg0.. bound
            callee = rp["callee"]
            bad = None
            n = 0
            for q, a, k, loc in speclib.CALL_ARGS:
                if q != callee:
                    continue
                n += 1
                e2 = dict(env)
                e2.update(loc)
                for i, v in enumerate(a):
                    e2[f"arg{i}"] = v
                try:
                    ok = bool(eval(compile(clause.strip(), "<clause>", "eval"), e2))
                except Exception as ex:  # noqa
                    ok = False
                    out["clause_error"] = repr(ex)
                if not ok:
                    bad = {"args": [repr(x)[:120] for x in a]}
                    break
            out["calls_checked"] = n
            out["reproduced"] = bad is not None
            out["failing_call"] = bad
        elif kind == "safety":
            expected = rp.get("expect_raise")
            out["reproduced"] = raised is not None and (expected is None or type(raised).__name__ == expected
                                                          or expected in [c.__name__ for c in type(raised).__mro__])
        elif raised is not None and not rp.get("on_raise"):
            out["reproduced"] = False
            out["note"] = "function raised; postcondition not evaluated"
        else:
            env["result"] = speclib.view(result)
            env["exc"] = raised
            env["__old"] = oe.old
            try:
                val = bool(eval(oe.rewritten(), env))
                out["clause_value"] = val
                out["reproduced"] = not val
            except (IndexError, KeyError, AttributeError) as e:
                out["clause_value"] = False
                out["clause_error"] = repr(e)
                out["reproduced"] = True
    except Exception:
        out["error"] = traceback.format_exc()[-1500:]
        out["reproduced"] = False
    print(json.dumps(out))


if __name__ == "__main__":
    main()
