"""CPython-side evaluation of contract clauses (replay and bounded stand-ins).

The clause text is the same text pyvc translates to SMT. Runs under /venv/bin/python with PYTHONPATH=/repo.
"""
import ast
import copy
import sys

TRACE = []          # events recorded from codelimit code: (target, method, args, kwargs)
ITER_TRACE = []


class Ev:
    def __init__(self, target, method, args, kwargs):
        self.target, self.method, self.args, self.kwargs = target, method, list(args), dict(kwargs)

    def __repr__(self):
        return f"Ev({type(self.target).__name__}.{self.method}{tuple(self.args)}{self.kwargs or ''})"


def _from_codelimit(depth=2):
    f = sys._getframe(depth)
    return f.f_globals.get("__name__", "").startswith("codelimit")


def install_recorders():
    """Patch rich's output entry points so that calls made *by codelimit code* are recorded."""
    import rich
    import rich.console
    import rich.table
    import rich.text

    def wrap(cls, name):
        orig = getattr(cls, name)

        def rec(self, *a, **k):
            if _from_codelimit():
                TRACE.append(Ev(self, name, a, k))
                if cls is rich.console.Console:
                    return None
                try:
                    return orig(self, *a, **k)
                except Exception:
                    return None     # object built without its Rich initialiser (replay of a method in isolation)
            return orig(self, *a, **k)

        setattr(cls, name, rec)

    for nm in ("print", "log", "rule"):
        wrap(rich.console.Console, nm)
    for nm in ("add_row", "add_column"):
        wrap(rich.table.Table, nm)
    wrap(rich.text.Text, "append")
    orig_print = rich.print

    def rprint(*a, **k):
        if _from_codelimit():
            TRACE.append(Ev("stdout", "print", a, k))
            return None
        return orig_print(*a, **k)

    rich.print = rprint


# ---------------------------------------------------------------- adapters: give externals the attribute view of the model
class StyleView:
    def __init__(self, s):
        self._s = s

    @property
    def color(self):
        c = self._s.color
        return c.name if c is not None else None


def view(x):
    try:
        from rich.style import Style
        from rich.text import Text
        if isinstance(x, Style):
            return StyleView(x)
        if isinstance(x, Text):
            return TextView(x)
    except ImportError:
        pass
    return x


class TextView:
    def __init__(self, t):
        self._t = t

    @property
    def style(self):
        s = self._t.style
        if isinstance(s, str):
            return s
        return view(s)

    def __str__(self):
        return self._t.plain

    def __eq__(self, o):
        return str(self) == (str(o) if isinstance(o, TextView) else o)


# ---------------------------------------------------------------- spec combinators
def forall(lo, hi, f):
    import inspect
    n = len(inspect.signature(f).parameters)
    if n == 1:
        return all(f(k) for k in range(lo, hi))
    return all(f(a, b) for a in range(lo, hi) for b in range(a + 1, hi))


def exists(lo, hi, f):
    return any(f(k) for k in range(lo, hi))


def implies(a, b):
    return (not a) or bool(b)


def iff(a, b):
    return bool(a) == bool(b)


def ite(c, a, b):
    return a if c else b


def is_none(x):
    return x is None


def count_if(xs, pred, n=None):
    xs = list(xs)[: (len(xs) if n is None else n)]
    return sum(1 for x in xs if pred(x))


def sum_if(xs, f, pred, n=None):
    xs = list(xs)[: (len(xs) if n is None else n)]
    return sum((f(x) if f is not None else x) for x in xs if (pred is None or pred(x)))


def same_list(a, b):
    return list(a) == list(b)


list_eq = same_list


def fmt(spec, v):
    return format(v, spec)


def strcat(*parts):
    return "".join(parts)


def count_char(s, ch, n=None):
    return s[: (len(s) if n is None else n)].count(ch)


def last_index_of(s, ch):
    return s.rfind(ch)


def dict_separate(a, b):
    return a is not b


def dict_values(d):
    return list(d.values())


def dict_keys(d):
    return list(d.keys())


def dict_get(d, k):
    return d.get(k)


def has_key(d, k):
    return k in d


def typename(x):
    return type(x).__name__


def _ev(k, tr):
    return tr[k]


def trace_len():
    return len(TRACE)


def trace_method(k):
    return TRACE[k].method


def trace_arg(k, j):
    return view(TRACE[k].args[j])


def trace_kw(k, name):
    return view(TRACE[k].kwargs.get(name))


def trace_target(k):
    return TRACE[k].target


def iter_trace_len():
    return len(ITER_TRACE)


def iter_trace_method(k):
    return ITER_TRACE[k].method


def iter_trace_arg(k, j):
    return view(ITER_TRACE[k].args[j])


def iter_trace_kw(k, name):
    return view(ITER_TRACE[k].kwargs.get(name))


class OldEnv:
    """Evaluates old(e) sub-expressions of a clause in the pre-state, before the call."""

    def __init__(self, clause, env):
        self.tree = ast.parse(clause.strip(), mode="eval")
        self.vals = {}
        for n in ast.walk(self.tree):
            if isinstance(n, ast.Call) and isinstance(n.func, ast.Name) and n.func.id == "old":
                src = ast.unparse(n.args[0])
                self.vals[src] = copy.deepcopy(eval(compile(ast.Expression(n.args[0]), "<old>", "eval"), env))

    def old(self, src):
        return self.vals[src]

    def rewritten(self):
        class R(ast.NodeTransformer):
            def visit_Call(s, n):
                n = s.generic_visit(n)
                if isinstance(n.func, ast.Name) and n.func.id == "old":
                    return ast.Call(func=ast.Name(id="__old", ctx=ast.Load()),
                                    args=[ast.Constant(value=ast.unparse(n.args[0]))], keywords=[])
                if isinstance(n.func, ast.Name) and n.func.id == "implies" and len(n.args) == 2 and not n.keywords:
                    # the consequent is only meaningful (and only evaluated) when the antecedent holds
                    return ast.BoolOp(op=ast.Or(), values=[ast.UnaryOp(op=ast.Not(), operand=n.args[0]), n.args[1]])
                return n
        t = R().visit(self.tree)
        ast.fix_missing_locations(t)
        return compile(t, "<clause>", "eval")


CALLS = []   # (qualname, result) of wrapped callees
CALL_ARGS = []  # (qualname, args, kwargs, caller locals)


def wrap_calls(names):
    """Record calls (and results) of the named functions, for clauses using called()/call_result()."""
    import importlib
    for key in names:
        mod, qn = key.split(":")
        m = importlib.import_module(mod)
        if "." in qn:
            cn, mn = qn.split(".", 1)
            cls = getattr(m, cn)
            orig = getattr(cls, mn)

            def w(*a, _o=orig, _q=qn, **k):
                loc = dict(sys._getframe(1).f_locals)
                r = _o(*a, **k)
                CALLS.append((_q, r))
                CALL_ARGS.append((_q, a, k, loc))
                return r
            setattr(cls, mn, w)
        else:
            orig = getattr(m, qn)

            def w(*a, _o=orig, _q=qn, **k):
                loc = dict(sys._getframe(1).f_locals)
                r = _o(*a, **k)
                CALLS.append((_q, r))
                CALL_ARGS.append((_q, a, k, loc))
                return r
            for name, mm in list(sys.modules.items()):
                if name.startswith("codelimit") and mm is not None and getattr(mm, qn, None) is orig:
                    setattr(mm, qn, w)


def called(name):
    return any(q == name for q, _ in CALLS)


def call_count(name):
    return sum(1 for q, _ in CALLS if q == name)


def call_result(name):
    for q, r in reversed(CALLS):
        if q == name:
            return r
    raise KeyError(name)


def out_len():
    return len(TRACE)


def out_method(k):
    try:
        return TRACE[k].method
    except IndexError:
        return "<none>"


def out_arg(k, j):
    return view(TRACE[k].args[j])


def out_kw(k, name):
    return view(TRACE[k].kwargs.get(name))


def base_env():
    import importlib.util
    import os
    env = {}
    here = os.path.dirname(os.path.abspath(__file__))
    spec = importlib.util.spec_from_file_location("verif_specs", os.path.join(here, "..", "contracts", "specs.py"))
    m = importlib.util.module_from_spec(spec)
    spec.loader.exec_module(m)
    env.update({k: v for k, v in vars(m).items() if not k.startswith("__")})
    g = globals()
    for k in ("forall", "exists", "implies", "iff", "ite", "is_none", "count_if", "sum_if", "same_list", "list_eq", "fmt",
              "strcat", "has_key", "typename", "dict_values", "dict_keys", "dict_get", "count_char", "dict_separate", "last_index_of", "trace_len", "trace_method", "trace_arg", "trace_kw", "trace_target",
              "iter_trace_len", "iter_trace_method", "iter_trace_arg", "iter_trace_kw", "called", "call_count", "call_result",
              "out_len", "out_method", "out_arg", "out_kw"):
        env[k] = g[k]
    return env
