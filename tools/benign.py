#!/usr/bin/env python3
"""Runs the listed checks against every behaviour-preserving edit under /verif/seeded/benign (scratch copies; /repo untouched).
Every check must exit 0: anything else is a false alarm of the machinery. usage: benign.py [-j N] [name ...]"""
import json, os, shutil, subprocess, sys, tempfile, time
from concurrent.futures import ThreadPoolExecutor
ROOT = "/verif/seeded/benign"


def one(name):
    d = os.path.join(ROOT, name)
    meta = json.load(open(os.path.join(d, "meta.json")))
    scratch = tempfile.mkdtemp(prefix=f"benign_{name}_")
    try:
        subprocess.run(["rsync", "-a", "--exclude", ".git", "--exclude", "__pycache__", "/repo/", scratch + "/"], check=True)
        ap = subprocess.run(["patch", "-p1", "-s", "--no-backup-if-mismatch", "-i", os.path.join(d, "patch.diff")], cwd=scratch)
        if ap.returncode:
            return f"{name:24s} PATCH-DOES-NOT-APPLY"
        res = {}
        for c in meta["checks"]:
            t0 = time.time()
            r = subprocess.run(["./check", c], env=dict(os.environ, VERIF_REPO=scratch), cwd="/verif", capture_output=True, text=True, timeout=2400)
            res[c] = {"exit": r.returncode, "seconds": round(time.time() - t0, 1),
                      "lines": [l for l in r.stdout.splitlines() if l.startswith("VIOLATION") or "undecided" in l.lower()][:4],
                      "notes": [l.strip() for l in r.stdout.splitlines() if l.strip().startswith("note:")][:4]}
        meta["recheck"] = res
        json.dump(meta, open(os.path.join(d, "meta.json"), "w"), indent=1)
        bad = {c: v for c, v in res.items() if v["exit"] != 0}
        return f"{name:24s} {'SILENT' if not bad else 'FALSE-ALARM ' + json.dumps(bad)[:400]} " + " ".join(f"{c}:{v['exit']}({v['seconds']}s)" for c, v in res.items())
    finally:
        shutil.rmtree(scratch, ignore_errors=True)


args = sys.argv[1:]
j = 5
if "-j" in args:
    j = int(args[args.index("-j") + 1]); del args[args.index("-j"):args.index("-j") + 2]
names = sorted(n for n in os.listdir(ROOT) if not args or any(a in n for a in args))
with ThreadPoolExecutor(j) as ex:
    for line in ex.map(one, names):
        print(line, flush=True)
