#!/usr/bin/env python3
"""Developer tool: record which obligations are discharged on the current (reference) tree -> baseline/<ID>.json.
Run only on a tree where every check passes; the files are committed and never written by the checks themselves."""
import json, os, subprocess, sys
props = [json.loads(l)["id"] for l in open("/verif/properties.jsonl")]
for p in (sys.argv[1:] or props):
    r = subprocess.run(["./check", p], cwd="/verif", env=dict(os.environ, VERIF_WRITE_BASELINE="1"), capture_output=True, text=True)
    print(p, r.returncode, r.stdout.strip().splitlines()[-1][:120] if r.stdout.strip() else "")
