#!/usr/bin/env python3
"""Creates the behaviour-preserving edits under /verif/seeded/benign/<name>/patch.diff (from textual replacements on a scratch
copy of /repo) together with the list of checks that must stay at exit 0 for them; run by hand when /repo changes."""
import json, os, shutil, subprocess, tempfile

EDITS = [
    ("rename_loop_local", "codelimit/common/utils.py", ["C02", "C07"],
     [("    for m in measurements:\n        if m.value <= 15:\n            result[0] += m.value\n        elif m.value <= 30:\n            result[1] += m.value\n        elif m.value <= 60:\n            result[2] += m.value\n        else:\n            result[3] += m.value",
       "    for meas in measurements:\n        if meas.value <= 15:\n            result[0] += meas.value\n        elif meas.value <= 30:\n            result[1] += meas.value\n        elif meas.value <= 60:\n            result[2] += meas.value\n        else:\n            result[3] += meas.value")]),
    ("reorder_counters", "codelimit/common/CheckResult.py", ["C02", "C12"],
     [("        self.hard_to_maintain += len([m for m in measurements if 30 < m.value <= 60])\n        self.unmaintainable += len([m for m in measurements if m.value > 60])",
       "        self.unmaintainable += len([m for m in measurements if m.value > 60])\n        self.hard_to_maintain += len([m for m in measurements if 30 < m.value <= 60])")]),
    ("negated_comparison", "codelimit/common/utils.py", ["C02", "C07"],
     [("        if m.value <= 15:\n            result[0] += 1", "        if not m.value > 15:\n            result[0] += 1")]),
    ("startswith_dot", "codelimit/common/Scanner.py", ["C11", "C09", "C03"],
     [('        files = [f for f in files if not f[0] == "."]\n        dirs[:] = [d for d in dirs if not d[0] == "."]\n        for file in files:\n            rel_path = Path(',
       '        files = [f for f in files if not f.startswith(".")]\n        dirs[:] = [d for d in dirs if not d.startswith(".")]\n        for file in files:\n            rel_path = Path(')]),
    ("drop_duplicate_relpath", "codelimit/common/Scanner.py", ["C09", "C11"],
     [("    if cached_report:\n        rel_path = relpath(path, root)\n        try:", "    if cached_report:\n        try:")]),
    ("delta_helper", "codelimit/common/ScanTotalsDelta.py", ["C18"],
     [('    def total_files(self) -> str:\n        total_files = self._scan_totals_current.total_files()\n        delta = total_files - self._scan_totals_previous.total_files()\n        return f"{total_files:n}" if delta == 0 else f"{total_files:n} ({delta:+n})"',
       '    @staticmethod\n    def _fmt(total: int, delta: int) -> str:\n        return f"{total:n}" if delta == 0 else f"{total:n} ({delta:+n})"\n\n    def total_files(self) -> str:\n        total_files = self._scan_totals_current.total_files()\n        return self._fmt(total_files, total_files - self._scan_totals_previous.total_files())')]),
    ("findings_limit_local", "codelimit/common/report/format_text.py", ["C18", "C02"],
     [("    total_findings = len(functions)\n    if not full and total_findings > 10:\n        functions = functions[:10]\n    for function in functions:\n        console.print(format_measurement(function.file, function.measurement))\n    if not full and total_findings > 10:\n        console.print(\n            f\"{total_findings - 10} more rows",
       "    total_findings = len(functions)\n    limit = 10\n    if not full and total_findings > limit:\n        functions = functions[:limit]\n    for function in functions:\n        console.print(format_measurement(function.file, function.measurement))\n    if not full and total_findings > limit:\n        console.print(\n            f\"{total_findings - limit} more rows")]),
    ("totals_setdefault", "codelimit/common/Codebase.py", ["C07", "C09"],
     [("        if entry.language not in self.totals:\n            self.totals[entry.language] = LanguageTotals(entry.language)\n        self.totals[entry.language].add(entry)",
       "        language_totals = self.totals.get(entry.language)\n        if language_totals is None:\n            language_totals = LanguageTotals(entry.language)\n            self.totals[entry.language] = language_totals\n        language_totals.add(entry)")]),
    ("lstrip_marker", "codelimit/common/source_utils.py", ["C17", "C04"],
     [("                value = value[1:].strip()", "                value = value[1:].lstrip()"), ("                value = value[2:].strip()", "                value = value[2:].lstrip()")]),
    ("reversed_blocks", "codelimit/common/scope/scope_utils.py", ["C01", "C05", "C03"],
     [("    reverse_blocks = blocks[::-1]\n    result = None\n    for block in reverse_blocks:", "    result = None\n    for block in reversed(blocks):")]),
    ("hoist_len_indices", "codelimit/common/lexer_utils.py", ["C16", "C05"],
     [("        newline_index = 0\n        line_start = 0\n        for t in lexer_tokens:\n            while newline_index < len(indices) and t[0] > indices[newline_index]:",
       "        newline_index = 0\n        line_start = 0\n        newline_count = len(indices)\n        for t in lexer_tokens:\n            while newline_index < newline_count and t[0] > indices[newline_index]:")]),
    ("matcher_rename", "codelimit/common/gsm/matcher.py", ["C13", "C14", "C01"],
     [("    for item in sequence:\n        next_state = pattern.consume(item)\n        if not next_state:\n            return None\n    if pattern.is_accepting():",
       "    for element in sequence:\n        if not pattern.consume(element):\n            return None\n    if pattern.is_accepting():")]),
    ("percent_helper", "codelimit/common/report/Report.py", ["C19"],
     [("        unmaintainable = ceil((profile[3] / total) * 100 - 0.001) if total > 0 else 0\n        hard_to_maintain = ceil((profile[2] / total) * 100 - 0.001) if total > 0 else 0\n        verbose = ceil((profile[1] / total) * 100 - 0.001) if total > 0 else 0",
       "        def share(part):\n            return ceil((part / total) * 100 - 0.001) if total > 0 else 0\n        unmaintainable = share(profile[3])\n        hard_to_maintain = share(profile[2])\n        verbose = share(profile[1])")]),
    ("end_location_local", "codelimit/common/Scanner.py", ["C01", "C05", "C12"],
     [("                end_location = Location(\n                    last_token.location.line,\n                    last_token.location.column + len(last_token.value),\n                )",
       "                end_column = last_token.location.column + len(last_token.value)\n                end_location = Location(last_token.location.line, end_column)")]),
    ("dedupe_same_path", "codelimit/common/CheckResult.py", ["C02", "C12", "C03"],
     [("        self.file_list.append((file, measurements))\n        self.hard_to_maintain +=",
       "        if any(f == file for f, _ in self.file_list):\n            return  # the very same path given twice: list and count it once\n        self.file_list.append((file, measurements))\n        self.hard_to_maintain +=")]),
    ("lexer_memo_by_name", "codelimit/common/Scanner.py", ["C06", "C11", "C09"],
     [("def scan_path(path: Path, cached_report", "_LEXERS_BY_NAME: dict = {}\n\n\ndef _lexer_for_name(rel_path):\n    # the lexer depends on the file name only: remember it per full name\n    key = rel_path.name\n    if key not in _LEXERS_BY_NAME:\n        _LEXERS_BY_NAME[key] = get_lexer_for_filename(rel_path)\n    return _LEXERS_BY_NAME[key]\n\n\ndef scan_path(path: Path, cached_report"),
      ("                lexer = get_lexer_for_filename(rel_path)\n                lexer_name = lexer.__class__.name\n                file_path = os.path.join(root, file)",
       "                lexer = _lexer_for_name(rel_path)\n                lexer_name = lexer.__class__.name\n                file_path = os.path.join(root, file)")]),
    ("sorted_walk", "codelimit/common/Scanner.py", ["C06", "C11", "C09", "C12"],
     [('        files = [f for f in files if not f[0] == "."]\n        dirs[:] = [d for d in dirs if not d[0] == "."]\n        for file in files:\n            rel_path = Path(',
       '        files = sorted(f for f in files if not f[0] == ".")\n        dirs[:] = sorted(d for d in dirs if not d[0] == ".")\n        for file in files:\n            rel_path = Path(')]),
    ("empty_profile_early_return", "codelimit/common/report/Report.py", ["C19"],
     [("        total = sum(profile)\n        unmaintainable = ceil(", "        total = sum(profile)\n        if total == 0:\n            return 100, 0, 0, 0\n        unmaintainable = ceil(")]),
    ("negative_sort_key", "codelimit/common/report/Report.py", ["C18", "C02", "C04"],
     [("        result = sorted(result, key=lambda unit: unit.measurement.value, reverse=True)", "        result = sorted(result, key=lambda unit: -unit.measurement.value)")]),
    ("blocks_inline", "codelimit/common/scope/scope_utils.py", ["C01", "C05"],
     [("    token_ranges = [TokenRange(bt[0], bt[1] + 1) for bt in balanced_tokens]\n    return sort_token_ranges(token_ranges, tokens)",
       "    return sort_token_ranges([TokenRange(first, last + 1) for first, last in balanced_tokens], tokens)")]),
    ("aggregate_rename", "codelimit/common/Codebase.py", ["C07"],
     [("        def aggregate_folder(path):\n            folder = self.tree[path]", "        def aggregate_folder(path):\n            # profile of a folder = its files plus its sub-folders\n            folder = self.tree[path]")]),
]
out_root = "/verif/seeded/benign"
for name, rel, checks, repl in EDITS:
    d = tempfile.mkdtemp(prefix="benign_")
    try:
        subprocess.run(["rsync", "-a", "--exclude", ".git", "--exclude", "__pycache__", "/repo/", d + "/a/"], check=True)
        subprocess.run(["rsync", "-a", d + "/a/", d + "/b/"], check=True)
        p = os.path.join(d, "b", rel)
        s = open(p).read()
        for old, new in repl:
            assert old in s, (name, old[:60])
            s = s.replace(old, new, 1)
        open(p, "w").write(s)
        diff = subprocess.run(["diff", "-u", os.path.join("a", rel), os.path.join("b", rel)], cwd=d, capture_output=True, text=True).stdout
        t = subprocess.run(["/venv/bin/python", "-m", "pytest", "-q", "-p", "no:cacheprovider", "-x"], cwd=os.path.join(d, "b"),
                           env=dict(os.environ, PYTHONPATH=os.path.join(d, "b"), PYTHONDONTWRITEBYTECODE="1"), capture_output=True, text=True)
        ok = " passed" in t.stdout and " failed" not in t.stdout
        os.makedirs(os.path.join(out_root, name), exist_ok=True)
        open(os.path.join(out_root, name, "patch.diff"), "w").write(diff)
        json.dump({"kind": "benign", "file": rel, "checks": checks, "tests_pass": ok}, open(os.path.join(out_root, name, "meta.json"), "w"), indent=1)
        print(name, "tests", "pass" if ok else "FAIL " + t.stdout[-200:])
    finally:
        shutil.rmtree(d, ignore_errors=True)
