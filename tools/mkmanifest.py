#!/usr/bin/env python3
"""Regenerates MANIFEST.json from props/*.py metadata (MANIFEST_ENTRY dicts) — developer tool."""
import importlib, json, os, sys
sys.path.insert(0, "/verif")
props = [json.loads(l)["id"] for l in open("/verif/properties.jsonl")]
checks, na = [], []
for pid in props:
    p = f"/verif/props/{pid}.py"
    meta = None
    if os.path.exists(p):
        src = open(p).read()
        ns = {}
        # only evaluate the MANIFEST dict literal, not the module (which imports z3)
        import ast
        tree = ast.parse(src)
        for st in tree.body:
            if isinstance(st, ast.Assign) and getattr(st.targets[0], "id", "") == "MANIFEST":
                meta = ast.literal_eval(st.value)
    if meta is None:
        na.append({"property_id": pid, "reason": "check not built yet (work in progress; see DESIGN.md)"})
        continue
    checks.append({
        "property_id": pid,
        "quick_cmd": f"./check {pid} --tier quick",
        "thorough_cmd": f"./check {pid} --tier thorough",
        "evidence_file": f"evidence/{pid}.json",
        "replay_cmd_template": "./check --replay {path}",
        "engine": "pyvc",
        "level_claimed": {"category": meta["category"], "text": meta["text"], "design_ref": meta.get("design_ref", "DESIGN.md §6")},
        "level_note": meta["note"],
        "technique": meta["technique"],
    })
m = {
    "version": 1,
    "setup_cmd": "python3-vt -c 'import z3' && /venv/bin/python -c 'import codelimit' && mkdir -p evidence replays",
    "hooks": {"guard": "CODELIMIT_VERIF", "enable": "no hooks are needed: contracts are sidecar files keyed by module:qualname; "
              "/repo is read (ast) and executed (replay, bounded stand-ins) as it stands",
              "baseline_off_cmd": "cd /repo && /venv/bin/python -m pytest -q -p no:cacheprovider", "source_commits": [], "add_only": True},
    "engines": [{"name": "pyvc", "path": "pyvc/", "serves_properties": [c["property_id"] for c in checks],
                 "kind_free_text": "contract-based deductive verifier built here: sidecar contracts on the real functions, "
                 "verification conditions generated from /repo's AST on every run, discharged by z3 (cvc5 for unknowns); "
                 "counter-models replayed on the real code; bounded stand-ins evaluate the same contracts at run time"}],
    "checks": checks,
    "notes": "Exit codes of ./check: 0 held / 1 violation / 2 undecided / 3 checker fault. See DESIGN.md.",
    "not_applicable": na,
}
json.dump(m, open("/verif/MANIFEST.json", "w"), indent=1)
print(len(checks), "checks;", len(na), "not yet claimed")
