#!/usr/bin/env python3
"""Prints the markdown table of kept changes (seeded/*) and benign edits with the outcome of the last re-check."""
import json, os, sys, io
_out = io.StringIO()
_real_print = print


def print(*a, **k):  # noqa
    _real_print(*a, **k, file=_out)


S = "/verif/seeded"
print("| change | what it does (author's summary, shortened) | still a violation | check -> exit | reported as |")
print("|---|---|---|---|---|")
for n in sorted(os.listdir(S)):
    mp = os.path.join(S, n, "meta.json")
    if n == "benign" or not os.path.exists(mp):
        continue
    m = json.load(open(mp))
    r = m.get("recheck") or {}
    checks = r.get("checks", {})
    rep = []
    for c, v in checks.items():
        for l in v.get("lines", [])[:2]:
            rep.append(l.split("replay=")[-1].replace("replays/", "").replace(".json", ""))
    print(f"| {n} | {(m.get('summary') or '')[:140].replace('|', '/')} | {'yes' if r.get('still_a_violation') else 'NO'} | "
          f"{', '.join(c + ' -> ' + str(v['exit']) for c, v in checks.items())} | {'; '.join('`' + x + '`' for x in rep[:2])} |")
print()
print("| benign edit | file | checks that must stay silent -> exit |")
print("|---|---|---|")
B = os.path.join(S, "benign")
for n in sorted(os.listdir(B)):
    m = json.load(open(os.path.join(B, n, "meta.json")))
    r = m.get("recheck", {})
    print(f"| {n} | {m['file']} | {', '.join(c + ' -> ' + str(v['exit']) for c, v in r.items())} |")

text = _out.getvalue()
if "--design" in sys.argv:
    p = "/verif/DESIGN.md"
    d = open(p).read()
    a, b = d.index("<!-- SEEDTABLE:BEGIN -->"), d.index("<!-- SEEDTABLE:END -->")
    d = d[:a] + "<!-- SEEDTABLE:BEGIN -->\n" + text + d[b:]
    open(p, "w").write(d)
else:
    sys.stdout.write(text)
