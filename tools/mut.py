#!/usr/bin/env python3
"""Developer tool: run a command against a scratch copy of /repo with one textual replacement applied.
usage: mut.py <relpath> <old> <new> -- <command...>   (the copy lives under $TMPDIR and is removed afterwards)"""
import os, shutil, subprocess, sys, tempfile
i = sys.argv.index("--")
rel, old, new = sys.argv[1:4]
cmd = sys.argv[i + 1:]
d = tempfile.mkdtemp(prefix="mut_")
try:
    shutil.copytree("/repo/codelimit", os.path.join(d, "codelimit"))
    p = os.path.join(d, rel)
    s = open(p).read()
    if s.count(old) < 1:
        print("pattern not found"); sys.exit(9)
    open(p, "w").write(s.replace(old, new, 1))
    env = dict(os.environ, VERIF_REPO=d)
    r = subprocess.run(cmd, env=env)
    sys.exit(r.returncode)
finally:
    shutil.rmtree(d, ignore_errors=True)
