#!/usr/bin/env python3
"""Re-run the checks against every kept change under /verif/seeded (scratch copies only; /repo is not touched) and record
the outcome in each meta.json under "recheck". usage: reseed.py [-j N] [name-substring ...]"""
import json, os, shutil, subprocess, sys, tempfile, time
from concurrent.futures import ThreadPoolExecutor

SEEDED = "/verif/seeded"


def run(cmd, **kw):
    return subprocess.run(cmd, capture_output=True, text=True, **kw)


def one(name):
    d = os.path.join(SEEDED, name)
    meta = json.load(open(os.path.join(d, "meta.json")))
    pid = meta.get("property") or name.split("_")[0]
    checks = meta.get("caught_by") or [pid]
    scratch = tempfile.mkdtemp(prefix=f"reseed_{name}_")
    try:
        run(["rsync", "-a", "--exclude", ".git", "--exclude", "__pycache__", "/repo/", scratch + "/"])
        env = dict(os.environ, PYTHONPATH=scratch, LC_ALL="C", PYTHONDONTWRITEBYTECODE="1")
        clean = run(["/venv/bin/python", os.path.join(d, "demo.py")], env=env, cwd=scratch, timeout=600)
        ap = run(["patch", "-p1", "--no-backup-if-mismatch", "-i", os.path.join(d, "patch.diff")], cwd=scratch)
        demo = run(["/venv/bin/python", os.path.join(d, "demo.py")], env=env, cwd=scratch, timeout=600)
        res = {"applied": ap.returncode == 0, "clean_demo_exit": clean.returncode, "patched_demo_exit": demo.returncode, "checks": {}}
        res["still_a_violation"] = res["applied"] and clean.returncode == 0 and demo.returncode != 0
        for c in checks:
            t0 = time.time()
            r = run(["./check", c], env=dict(os.environ, VERIF_REPO=scratch), cwd="/verif", timeout=2400)
            viol = [l for l in r.stdout.splitlines() if l.startswith("VIOLATION")]
            res["checks"][c] = {"exit": r.returncode, "seconds": round(time.time() - t0, 1), "lines": sorted(set(viol))[:4]}
        meta["recheck"] = res
        json.dump(meta, open(os.path.join(d, "meta.json"), "w"), indent=1)
        caught = any(v["exit"] == 1 for v in res["checks"].values())
        return f"{name:12s} {'violation' if res['still_a_violation'] else 'NOT-A-VIOLATION-ANY-MORE'} {'CAUGHT' if caught else 'MISSED'} " + \
               " ".join(f"{c}:{v['exit']}({v['seconds']}s)" for c, v in res["checks"].items())
    except Exception as e:  # noqa
        return f"{name:12s} ERROR {type(e).__name__}: {e}"
    finally:
        shutil.rmtree(scratch, ignore_errors=True)


def main():
    args = sys.argv[1:]
    j = 5
    if "-j" in args:
        j = int(args[args.index("-j") + 1])
        del args[args.index("-j"):args.index("-j") + 2]
    names = sorted(n for n in os.listdir(SEEDED) if os.path.exists(os.path.join(SEEDED, n, "patch.diff")) and (not args or any(a in n for a in args)))
    with ThreadPoolExecutor(j) as ex:
        for line in ex.map(one, names):
            print(line, flush=True)


main()
