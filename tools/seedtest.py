#!/usr/bin/env python3
"""Confirm sub-agent changes and run the checks against them (scratch copies only; /repo is not touched).
usage: seedtest.py <Cxx> [k ...] [--checks C02,C07]"""
import json, os, shutil, subprocess, sys, tempfile, time

def run(cmd, **kw):
    return subprocess.run(cmd, capture_output=True, text=True, **kw)

def main():
    pid = sys.argv[1]
    ks = [a for a in sys.argv[2:] if a.isdigit()]
    checks = [pid]
    for a in sys.argv[2:]:
        if a.startswith("--checks"):
            checks = sys.argv[sys.argv.index(a) + 1].split(",")
    src = os.path.join(os.environ.get("SEED_SRC", "/tmp/seed/out"), pid)
    ks = ks or sorted(os.listdir(src))
    for k in ks:
        d = os.path.join(src, k)
        if not os.path.exists(os.path.join(d, "patch.diff")):
            continue
        scratch = tempfile.mkdtemp(prefix=f"seed_{pid}_{k}_")
        try:
            run(["rsync", "-a", "--exclude", ".git", "--exclude", "__pycache__", "/repo/", scratch + "/"])
            env = dict(os.environ, PYTHONPATH=scratch, LC_ALL="C", PYTHONDONTWRITEBYTECODE="1")
            clean_demo = run(["/venv/bin/python", os.path.join(d, "demo.py")], env=env, cwd=scratch, timeout=300)
            ap = run(["patch", "-p1", "--no-backup-if-mismatch", "-i", os.path.join(d, "patch.diff")], cwd=scratch)
            applied = ap.returncode == 0
            tests = run(["/venv/bin/python", "-m", "pytest", "-q", "-p", "no:cacheprovider", "-x"], env=env, cwd=scratch, timeout=900)
            tests_ok = " passed" in tests.stdout and " failed" not in tests.stdout
            demo = run(["/venv/bin/python", os.path.join(d, "demo.py")], env=env, cwd=scratch, timeout=300)
            res = {"applied": applied, "clean_demo_exit": clean_demo.returncode, "patched_tests_pass": tests_ok,
                   "patched_demo_exit": demo.returncode, "checks": {}}
            confirmed = applied and clean_demo.returncode == 0 and tests_ok and demo.returncode != 0
            res["confirmed"] = confirmed
            for c in checks:
                t0 = time.time()
                r = run(["./check", c], env=dict(os.environ, VERIF_REPO=scratch), cwd="/verif", timeout=1800)
                viol = [l for l in r.stdout.splitlines() if l.startswith("VIOLATION") or l.startswith("  obligation")]
                res["checks"][c] = {"exit": r.returncode, "seconds": round(time.time() - t0, 1), "lines": viol[:6],
                                    "tail": r.stdout.splitlines()[-3:] if r.returncode not in (0, 1) else []}
            out = f"/verif/seeded/{pid}_{os.environ.get('SEED_TAG', '')}{k}"
            os.makedirs(out, exist_ok=True)
            shutil.copy(os.path.join(d, "patch.diff"), out)
            shutil.copy(os.path.join(d, "demo.py"), out)
            meta = json.load(open(os.path.join(d, "meta.json"))) if os.path.exists(os.path.join(d, "meta.json")) else {}
            meta["confirmation"] = res
            meta["ran_by_me"] = ["rsync /repo -> scratch; demo on clean copy; patch -p1; pytest; demo on patched copy; ./check with VERIF_REPO=scratch"]
            json.dump(meta, open(os.path.join(out, "meta.json"), "w"), indent=1)
            print(pid, k, "confirmed" if confirmed else f"NOT-CONFIRMED {res}", {c: (v["exit"], v["seconds"]) for c, v in res["checks"].items()},
                  meta.get("summary", "")[:100])
            for c, v in res["checks"].items():
                for l in v["lines"][:2] + v["tail"]:
                    print("     ", l[:200])
        finally:
            shutil.rmtree(scratch, ignore_errors=True)

main()
