#!/usr/bin/env python3
"""Developer tool: run a command against a scratch copy of /repo with a patch applied (VERIF_REPO points at it).
usage: wp.py <patch.diff> -- <command...>   (the copy lives under $TMPDIR and is removed afterwards)"""
import os, shutil, subprocess, sys, tempfile
i = sys.argv.index("--")
patch = os.path.abspath(sys.argv[1])
cmd = sys.argv[i + 1:]
d = tempfile.mkdtemp(prefix="wp_")
try:
    subprocess.run(["rsync", "-a", "--exclude", ".git", "--exclude", "__pycache__", "/repo/", d + "/"], check=True)
    r = subprocess.run(["patch", "-p1", "-s", "--no-backup-if-mismatch", "-i", patch], cwd=d)
    if r.returncode:
        print("patch failed"); sys.exit(9)
    r = subprocess.run(cmd, env=dict(os.environ, VERIF_REPO=d, PYTHONPATH=d))
    sys.exit(r.returncode)
finally:
    shutil.rmtree(d, ignore_errors=True)
